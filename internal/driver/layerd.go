package driver

import (
	"fmt"
	"sort"
	"strings"
	"time"

	"gvc/internal/smt"
	"gvc/internal/vc"
)

// ObResult is one obligation with its verdict.
type ObResult struct {
	Name    string `json:"name"`
	ID      string `json:"id"`
	Kind    string `json:"kind"`
	Func    string `json:"func"`
	Pos     string `json:"pos,omitempty"`
	Status  string `json:"status"`
	Backend string `json:"backend,omitempty"`
	Millis  int64  `json:"ms"`
	File    string `json:"smt_file,omitempty"`
	Model   string `json:"model,omitempty"`
	Output  string `json:"solver_output,omitempty"`
	Layer   string `json:"layer"`
	// Concrete: a real Go package on which the real goderive reproduces a
	// text-level violation (set for failed parse / type-check obligations of paths
	// that define a plugin's helper)
	Concrete string `json:"concrete_package,omitempty"`
}

// VerifyD runs the VC generator over repository functions (Layer D).
// pkgShort is e.g. "derive"; keys are contract keys.
func (l *Loaded) VerifyD(pkgShort string, keys []string, opts vc.VerifyOpts, runner *smt.Runner) ([]ObResult, error) {
	p := l.Pkg(pkgShort)
	if p == nil {
		return nil, fmt.Errorf("package %s not loaded", pkgShort)
	}
	// Layer-O client hooks do not apply to repository code
	vc.FieldIDHook, vc.ArrayLenHook, vc.ConvHook, vc.FuncLitHook = nil, nil, nil, nil
	var all []ObResult
	var qs []*smt.Query
	var obls []*vc.Obligation
	for _, key := range keys {
		e := vc.NewEngine(l.Fset, l.Contracts)
		e.AddFuncs(p.Types, p.TypesInfo, p.Syntax)
		e.ArgOwnership = true
		if err := e.VerifyFunc(key, opts); err != nil {
			// the contract no longer fits the code: the proof of the pinned tree cannot be rebuilt
			all = append(all, ObResult{Name: key + "/contract-applies", ID: key + "/contract-applies#0", Kind: "contract-applies", Func: key,
				Status: "refuted", Backend: "gvc", Output: err.Error(), Layer: "D"})
			continue
		}
		all = append(all, ObResult{Name: key + "/contract-applies", ID: key + "/contract-applies#0", Kind: "contract-applies", Func: key, Status: "unsat", Backend: "gvc", Layer: "D"})
		qs = append(qs, e.Queries()...)
		obls = append(obls, e.Obls...)
		if l.UsedContracts == nil {
			l.UsedContracts = map[string]bool{}
		}
		for k := range e.UsedContracts {
			l.UsedContracts[k] = true
		}
	}
	{
		rs := runner.SolveAll(qs)
		for i, o := range obls {
			r := rs[i]
			if o.ExpectSat {
				// a probe passes unless the assumptions are refuted
				if r.Status == "unsat" {
					r.Status = "vacuous"
				} else {
					r.Status = "unsat"
					r.Backend += "(probe:not-refuted)"
				}
			}
			all = append(all, ObResult{Name: o.Name, ID: o.ID, Kind: o.Kind, Func: o.Func, Pos: shortPos(o.Pos.String()),
				Status: r.Status, Backend: r.Backend, Millis: r.Millis, File: r.File, Model: r.Model, Output: r.Output, Layer: "D"})
		}
	}
	return MergeProbes(all), nil
}

// MergeProbes: a vacuity probe is posed on every path that reaches the probed
// point; the point is reachable if the assumptions of at least one of those
// paths are not refuted (paths on which, say, a slice is empty legitimately
// never reach a loop head with i > 0).
func MergeProbes(rs []ObResult) []ObResult {
	alive := map[string]bool{}
	for _, r := range rs {
		if r.Kind == "vacuity" && r.Status == "unsat" {
			alive[r.Name] = true
		}
	}
	for i := range rs {
		if rs[i].Kind == "vacuity" && rs[i].Status == "vacuous" && alive[rs[i].Name] {
			rs[i].Status = "unsat"
			rs[i].Backend += "(probe:unreachable-on-this-path-only)"
		}
	}
	return rs
}

func shortPos(s string) string {
	return strings.TrimPrefix(s, "/repo/")
}

// Summary prints results, grouped by obligation name.
func Summary(rs []ObResult) string {
	var b strings.Builder
	byName := map[string][]ObResult{}
	var names []string
	for _, r := range rs {
		if _, ok := byName[r.Name]; !ok {
			names = append(names, r.Name)
		}
		byName[r.Name] = append(byName[r.Name], r)
	}
	sort.Strings(names)
	for _, n := range names {
		ok, bad := 0, 0
		var ms int64
		st := ""
		for _, r := range byName[n] {
			ms += r.Millis
			if r.Status == "unsat" {
				ok++
			} else {
				bad++
				st = r.Status + " " + r.File
			}
		}
		mark := "ok  "
		if bad > 0 {
			mark = "FAIL"
		}
		fmt.Fprintf(&b, "%s %-90s paths=%d ms=%d %s\n", mark, n, ok+bad, ms, st)
	}
	return b.String()
}

var _ = time.Now
