// Package driver loads /repo (current working tree, build tag verif), reads the
// contract files and runs the engines.
package driver

import (
	"fmt"
	"go/token"
	"os"
	"path/filepath"
	"sort"
	"strings"

	"golang.org/x/tools/go/packages"

	"gvc/internal/contract"
)

const Module = "github.com/awalterschulze/goderive"

type Loaded struct {
	Repo      string
	Fset      *token.FileSet
	Pkgs      map[string]*packages.Package // by import path
	Contracts *contract.Set
	Files     []string // contract files read
	// UsedContracts: callee contracts applied while verifying Layer-D functions in this run
	UsedContracts map[string]bool
}

// Load type-checks the repository from its current working tree.
func Load(repo string) (*Loaded, error) {
	fset := token.NewFileSet()
	cfg := &packages.Config{
		Mode:       packages.NeedName | packages.NeedFiles | packages.NeedSyntax | packages.NeedTypes | packages.NeedTypesInfo | packages.NeedImports | packages.NeedDeps | packages.NeedCompiledGoFiles,
		Dir:        repo,
		Fset:       fset,
		BuildFlags: []string{"-tags=verif"},
		Env:        append(os.Environ(), "GOFLAGS=-mod=mod", "GOPROXY=off"),
	}
	pkgs, err := packages.Load(cfg, "./derive", "./plugin/...", ".")
	if err != nil {
		return nil, err
	}
	l := &Loaded{Repo: repo, Fset: fset, Pkgs: map[string]*packages.Package{}, Contracts: contract.NewSet()}
	for _, p := range pkgs {
		if len(p.Errors) > 0 {
			return nil, fmt.Errorf("package %s does not type-check: %v", p.PkgPath, p.Errors[0])
		}
		l.Pkgs[p.PkgPath] = p
	}
	// contract files
	var files []string
	filepath.Walk(repo, func(path string, info os.FileInfo, err error) error {
		if err != nil {
			return nil
		}
		if info.IsDir() && (info.Name() == "vendor" || info.Name() == ".git" || info.Name() == "test" || info.Name() == "example") {
			return filepath.SkipDir
		}
		if !info.IsDir() && info.Name() == "contracts_verif.go" {
			files = append(files, path)
		}
		return nil
	})
	sort.Strings(files)
	for _, f := range files {
		if err := l.Contracts.ParseFile(f); err != nil {
			return nil, err
		}
	}
	l.Files = files
	return l, nil
}

func (l *Loaded) Pkg(short string) *packages.Package {
	if short == "main" || short == "." {
		return l.Pkgs[Module]
	}
	if p, ok := l.Pkgs[Module+"/"+short]; ok {
		return p
	}
	for k, p := range l.Pkgs {
		if strings.HasSuffix(k, "/"+short) {
			return p
		}
	}
	return nil
}
