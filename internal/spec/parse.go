// Package spec parses the expression language of the //@ contract clauses:
// Go expression syntax plus forall/exists, ==>, <==>, old(e), k in m.
package spec

import (
	"fmt"
	"strconv"
	"strings"
	"unicode"
	"unicode/utf8"
)

type Expr interface{ String() string }

type (
	Ident   struct{ Name string }
	IntLit  struct{ Val int }
	StrLit  struct{ Val string }
	BoolLit struct{ Val bool }
	Unary   struct {
		Op string
		X  Expr
	}
	Binary struct {
		Op   string
		X, Y Expr
	}
	Call struct {
		Fun  string
		Args []Expr
	}
	Index  struct{ X, I Expr }
	Slice  struct{ X, Lo, Hi Expr } // Lo/Hi may be nil
	Select struct {
		X    Expr
		Name string
	}
	Quant struct {
		Forall bool
		Vars   []QVar
		Body   Expr
	}
	Old struct{ X Expr }
)

type QVar struct{ Name, Type string }

func (e *Ident) String() string   { return e.Name }
func (e *IntLit) String() string  { return fmt.Sprint(e.Val) }
func (e *StrLit) String() string  { return fmt.Sprintf("%q", e.Val) }
func (e *BoolLit) String() string { return fmt.Sprint(e.Val) }
func (e *Unary) String() string   { return e.Op + e.X.String() }
func (e *Binary) String() string  { return "(" + e.X.String() + " " + e.Op + " " + e.Y.String() + ")" }
func (e *Call) String() string {
	var as []string
	for _, a := range e.Args {
		as = append(as, a.String())
	}
	return e.Fun + "(" + strings.Join(as, ", ") + ")"
}
func (e *Index) String() string { return e.X.String() + "[" + e.I.String() + "]" }
func (e *Slice) String() string {
	lo, hi := "", ""
	if e.Lo != nil {
		lo = e.Lo.String()
	}
	if e.Hi != nil {
		hi = e.Hi.String()
	}
	return e.X.String() + "[" + lo + ":" + hi + "]"
}
func (e *Select) String() string { return e.X.String() + "." + e.Name }
func (e *Quant) String() string {
	q := "exists"
	if e.Forall {
		q = "forall"
	}
	var vs []string
	for _, v := range e.Vars {
		vs = append(vs, v.Name+" "+v.Type)
	}
	return "(" + q + " " + strings.Join(vs, ", ") + " :: " + e.Body.String() + ")"
}
func (e *Old) String() string { return "old(" + e.X.String() + ")" }

type token struct {
	kind string // id int str op eof
	text string
	pos  int
}

var ops = []string{"<==>", "==>", "::", "&&", "||", "==", "!=", "<=", ">=", "<", ">", "+", "-", "*", "/", "%", "!", "(", ")", "[", "]", ",", ".", ":", "&"}

func lex(s string) ([]token, error) {
	var ts []token
	i := 0
	isIdStart := func(c rune) bool { return unicode.IsLetter(c) || c == '_' || c == '$' }
	for i < len(s) {
		c, w := utf8.DecodeRuneInString(s[i:])
		if c == ' ' || c == '\t' || c == '\n' {
			i += w
			continue
		}
		if isIdStart(c) {
			j := i + w
			for j < len(s) {
				d, dw := utf8.DecodeRuneInString(s[j:])
				if !(isIdStart(d) || unicode.IsDigit(d)) {
					break
				}
				j += dw
			}
			ts = append(ts, token{"id", s[i:j], i})
			i = j
			continue
		}
		if unicode.IsDigit(c) {
			j := i + 1
			for j < len(s) && unicode.IsDigit(rune(s[j])) {
				j++
			}
			ts = append(ts, token{"int", s[i:j], i})
			i = j
			continue
		}
		if c == '"' {
			j := i + 1
			for j < len(s) && s[j] != '"' {
				if s[j] == '\\' {
					j++
				}
				j++
			}
			if j >= len(s) {
				return nil, fmt.Errorf("unterminated string at %d", i)
			}
			lit := s[i+1 : j]
			if strings.Contains(lit, "\\") {
				// escapes mean what they mean in Go ("\n" is a line feed)
				u, err := strconv.Unquote(`"` + lit + `"`)
				if err != nil {
					return nil, fmt.Errorf("string literal at %d: %v", i, err)
				}
				lit = u
			}
			ts = append(ts, token{"str", lit, i})
			i = j + 1
			continue
		}
		matched := false
		for _, op := range ops {
			if strings.HasPrefix(s[i:], op) {
				ts = append(ts, token{"op", op, i})
				i += len(op)
				matched = true
				break
			}
		}
		if !matched {
			return nil, fmt.Errorf("unexpected character %q at %d in %q", c, i, s)
		}
	}
	ts = append(ts, token{"eof", "", len(s)})
	return ts, nil
}

type parser struct {
	ts  []token
	p   int
	src string
}

func (p *parser) peek() token { return p.ts[p.p] }
func (p *parser) next() token { t := p.ts[p.p]; p.p++; return t }
func (p *parser) isOp(op string) bool {
	t := p.peek()
	return t.kind == "op" && t.text == op
}
func (p *parser) expectOp(op string) error {
	if !p.isOp(op) {
		return fmt.Errorf("expected %q at %d in %q, got %q", op, p.peek().pos, p.src, p.peek().text)
	}
	p.next()
	return nil
}

// Parse parses one spec expression.
func Parse(s string) (Expr, error) {
	ts, err := lex(s)
	if err != nil {
		return nil, err
	}
	p := &parser{ts: ts, src: s}
	e, err := p.expr()
	if err != nil {
		return nil, err
	}
	if p.peek().kind != "eof" {
		return nil, fmt.Errorf("trailing input at %d in %q", p.peek().pos, s)
	}
	return e, nil
}

func MustParse(s string) Expr {
	e, err := Parse(s)
	if err != nil {
		panic(err)
	}
	return e
}

func (p *parser) expr() (Expr, error) {
	t := p.peek()
	if t.kind == "id" && (t.text == "forall" || t.text == "exists") && p.ts[p.p+1].kind == "id" {
		p.next()
		q := &Quant{Forall: t.text == "forall"}
		for {
			n := p.next()
			if n.kind != "id" {
				return nil, fmt.Errorf("quantifier: expected variable name in %q", p.src)
			}
			ty := ""
			for !(p.isOp(",") || p.isOp("::") || p.peek().kind == "eof") {
				ty += p.next().text
			}
			if ty == "" {
				ty = "int"
			}
			q.Vars = append(q.Vars, QVar{n.text, ty})
			if p.isOp(",") {
				p.next()
				continue
			}
			break
		}
		if err := p.expectOp("::"); err != nil {
			return nil, err
		}
		b, err := p.expr()
		if err != nil {
			return nil, err
		}
		q.Body = b
		return q, nil
	}
	return p.implies()
}

func (p *parser) implies() (Expr, error) {
	x, err := p.iff()
	if err != nil {
		return nil, err
	}
	if p.isOp("==>") {
		p.next()
		y, err := p.expr() // right assoc, quantifier allowed on the right
		if err != nil {
			return nil, err
		}
		return &Binary{"==>", x, y}, nil
	}
	return x, nil
}

func (p *parser) iff() (Expr, error) {
	x, err := p.binary(1)
	if err != nil {
		return nil, err
	}
	for p.isOp("<==>") {
		p.next()
		y, err := p.binary(1)
		if err != nil {
			return nil, err
		}
		x = &Binary{"<==>", x, y}
	}
	return x, nil
}

func prec(op string) int {
	switch op {
	case "||":
		return 1
	case "&&":
		return 2
	case "==", "!=", "<", "<=", ">", ">=", "in":
		return 3
	case "+", "-":
		return 4
	case "*", "/", "%":
		return 5
	}
	return 0
}

func (p *parser) binary(min int) (Expr, error) {
	x, err := p.unary()
	if err != nil {
		return nil, err
	}
	for {
		t := p.peek()
		op := ""
		if t.kind == "op" {
			op = t.text
		} else if t.kind == "id" && t.text == "in" {
			op = "in"
		}
		pr := prec(op)
		if pr == 0 || pr < min {
			return x, nil
		}
		p.next()
		y, err := p.binary(pr + 1)
		if err != nil {
			return nil, err
		}
		x = &Binary{op, x, y}
	}
}

func (p *parser) unary() (Expr, error) {
	if t := p.peek(); t.kind == "id" && (t.text == "forall" || t.text == "exists") && p.ts[p.p+1].kind == "id" {
		return p.expr()
	}
	if p.isOp("!") || p.isOp("-") || p.isOp("*") || p.isOp("&") {
		op := p.next().text
		x, err := p.unary()
		if err != nil {
			return nil, err
		}
		return &Unary{op, x}, nil
	}
	return p.postfix()
}

func (p *parser) postfix() (Expr, error) {
	x, err := p.primary()
	if err != nil {
		return nil, err
	}
	for {
		switch {
		case p.isOp("["):
			p.next()
			var lo, hi Expr
			if !p.isOp(":") {
				lo, err = p.expr()
				if err != nil {
					return nil, err
				}
			}
			if p.isOp(":") {
				p.next()
				if !p.isOp("]") {
					hi, err = p.expr()
					if err != nil {
						return nil, err
					}
				}
				if err := p.expectOp("]"); err != nil {
					return nil, err
				}
				x = &Slice{x, lo, hi}
				continue
			}
			if err := p.expectOp("]"); err != nil {
				return nil, err
			}
			x = &Index{x, lo}
		case p.isOp("."):
			p.next()
			n := p.next()
			if n.kind != "id" {
				return nil, fmt.Errorf("selector: expected name in %q", p.src)
			}
			x = &Select{x, n.text}
		case p.isOp("("):
			// call: only on identifiers / selectors (rendered as dotted name)
			name := ""
			switch f := x.(type) {
			case *Ident:
				name = f.Name
			case *Select:
				name = f.String()
			default:
				return nil, fmt.Errorf("call of non-name in %q", p.src)
			}
			p.next()
			var args []Expr
			for !p.isOp(")") {
				a, err := p.expr()
				if err != nil {
					return nil, err
				}
				args = append(args, a)
				if p.isOp(",") {
					p.next()
				} else {
					break
				}
			}
			if err := p.expectOp(")"); err != nil {
				return nil, err
			}
			if name == "old" && len(args) == 1 {
				x = &Old{args[0]}
			} else {
				x = &Call{name, args}
			}
		default:
			return x, nil
		}
	}
}

func (p *parser) primary() (Expr, error) {
	t := p.next()
	switch t.kind {
	case "id":
		switch t.text {
		case "true":
			return &BoolLit{true}, nil
		case "false":
			return &BoolLit{false}, nil
		}
		return &Ident{t.text}, nil
	case "int":
		n := 0
		fmt.Sscan(t.text, &n)
		return &IntLit{n}, nil
	case "str":
		return &StrLit{t.text}, nil
	case "op":
		if t.text == "(" {
			e, err := p.expr()
			if err != nil {
				return nil, err
			}
			if err := p.expectOp(")"); err != nil {
				return nil, err
			}
			return e, nil
		}
	}
	return nil, fmt.Errorf("unexpected %q at %d in %q", t.text, t.pos, p.src)
}
