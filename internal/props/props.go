// Package props ties the given properties (C01..C20) to the obligations that
// decide them, applies the known-findings policy and writes evidence.
package props

import (
	"crypto/sha256"
	"encoding/hex"
	"encoding/json"
	"fmt"
	"os"
	"os/exec"
	"path/filepath"
	"regexp"
	"sort"
	"strings"
	"time"

	"gvc/internal/driver"
	"gvc/internal/olayer"
	"gvc/internal/smt"
	"gvc/internal/vc"
)

// Group is a set of functions verified by one engine pass.
type Group struct {
	Layer      string   // "D", "G", "O"
	Pkg        string   // short package name
	Funcs      []string // contract keys (Layer D)
	Ghost      []vc.GhostVar
	DropAxioms []string                     // Layer D: labelled axioms not to be assumed
	NoVC       bool                         // Layer O: text-level obligations only
	Only       func(r driver.ObResult) bool // filter of the obligations that belong to this property
}

// Property describes how one property is decided.
type Property struct {
	ID          string
	Groups      []Group
	Assumptions []string
	Trusted     []string
	// Extra runs additional (non Layer-D) machinery and returns obligations.
	Extra func(ctx *Ctx) ([]driver.ObResult, error)
	Note  string
}

type Ctx struct {
	L        *driver.Loaded
	Runner   *smt.Runner
	Tier     string
	Seed     int
	VerifDir string
	Repo     string
	Replays  int // replays run so far
}

type Finding struct {
	Property   string   `json:"property"`
	Obligation string   `json:"obligation"`
	What       string   `json:"what"`
	Witness    string   `json:"witness,omitempty"`
	Status     string   `json:"status"` // open | fixed
	Commit     string   `json:"commit,omitempty"`
	Also       []string `json:"also,omitempty"` // further properties whose checks contain the same obligation
	// Detail narrows a finding to the failure it describes: a regular expression that
	// every message of the failed obligation ("; "-separated, before " on path") must
	// match. A failure of the same obligation with another message is a new violation.
	Detail string `json:"detail,omitempty"`
}

// unexplained returns the failed results that the finding does not describe.
func (f Finding) unexplained(failed []driver.ObResult) []driver.ObResult {
	if f.Detail == "" {
		return nil
	}
	re, err := regexp.Compile(f.Detail)
	if err != nil {
		return failed
	}
	var out []driver.ObResult
	for _, r := range failed {
		msg := strings.SplitN(strings.TrimSpace(r.Output), "\n", 2)[0]
		if i := strings.Index(msg, " on path "); i >= 0 {
			msg = msg[:i]
		}
		ok := true
		for _, piece := range strings.Split(msg, "; ") {
			if !re.MatchString(piece) {
				ok = false
			}
		}
		if !ok {
			out = append(out, r)
		}
	}
	return out
}

func LoadFindings(path string) ([]Finding, error) {
	data, err := os.ReadFile(path)
	if err != nil {
		if os.IsNotExist(err) {
			return nil, nil
		}
		return nil, err
	}
	var fs []Finding
	if err := json.Unmarshal(data, &fs); err != nil {
		return nil, fmt.Errorf("%s: %v", path, err)
	}
	return fs, nil
}

type Evidence struct {
	PropertyID  string                 `json:"property_id"`
	Tier        string                 `json:"tier"`
	Seed        int                    `json:"seed"`
	Level       string                 `json:"level"`
	Coverage    map[string]interface{} `json:"coverage"`
	Assumptions []string               `json:"assumptions"`
	WallS       float64                `json:"wall_s"`
	Violations  int                    `json:"violations"`
}

// Run decides one property; returns the process exit code.
func Run(ctx *Ctx, p *Property, level string) int {
	start := time.Now()
	var all []driver.ObResult
	var pathStats []map[string]interface{}
	for _, g := range p.Groups {
		switch g.Layer {
		case "D":
			rs, err := ctx.L.VerifyD(g.Pkg, g.Funcs, vc.VerifyOpts{Ghost: g.Ghost, DropAxioms: g.DropAxioms}, ctx.Runner)
			if err != nil {
				fmt.Fprintf(os.Stderr, "gvc: engine error (property %s undecided): %v\n", p.ID, err)
				return 2
			}
			all = append(all, rs...)
		}
	}
	for _, g := range p.Groups {
		if g.Layer != "O" {
			continue
		}
		b := olayer.NewBuilder(ctx.L.Contracts)
		b.Prefixes = pluginPrefixes(ctx.Repo)
		for _, fn := range g.Funcs {
			ro := olayer.RunOpts{NoVC: g.NoVC}
			if ctx.Tier == "thorough" {
				// thorough: struct field counts are enumerated up to 4 instead of 3 for the
				// generator functions whose clauses do not spell out arities (attribute thorough-arity)
				if con := ctx.L.Contracts.Funcs[fn]; con != nil {
					if ta := con.Attr("thorough-arity"); ta != "" {
						fmt.Sscan(ta, &ro.MaxArity)
					}
				}
			}
			rep, err := olayer.RunEntry(ctx.L, b, fn, ro)
			if err != nil {
				fmt.Fprintf(os.Stderr, "gvc: engine error (property %s undecided): %v\n", p.ID, err)
				return 2
			}
			rep.Solve(ctx.Runner)
			fmt.Printf("  %s: %d paths (%d ok, %d error, %d infeasible, %d outside the grammar, %d text-level only)\n", fn, rep.Paths, rep.OkPaths, rep.ErrPaths, rep.Infeasible, rep.OutOfGrammar, rep.TextOnly)
			pathStats = append(pathStats, map[string]interface{}{"entry": fn, "paths": rep.Paths, "non_error_paths": rep.OkPaths, "error_paths": rep.ErrPaths, "infeasible": rep.Infeasible,
				"outside_grammar": rep.OutOfGrammar, "text_level_only": rep.TextOnly, "semantic_clauses_checked": !g.NoVC})
			for _, r := range rep.Results {
				if g.Only != nil && !g.Only(r) && r.Kind != "contract-applies" {
					continue
				}
				all = append(all, r)
			}
			if !g.NoVC {
				all = append(all, clauseCoverage(ctx, fn, rep.Results)...)
			}
		}
	}
	if p.Extra != nil {
		rs, err := p.Extra(ctx)
		if err != nil {
			fmt.Fprintf(os.Stderr, "gvc: engine error (property %s undecided): %v\n", p.ID, err)
			return 2
		}
		all = append(all, rs...)
	}
	findings, err := LoadFindings(filepath.Join(ctx.VerifDir, "known_findings.json"))
	if err != nil {
		fmt.Fprintln(os.Stderr, "gvc:", err)
		return 2
	}
	open := map[string]Finding{}
	for _, f := range findings {
		applies := f.Property == p.ID
		for _, a := range f.Also {
			if a == p.ID {
				applies = true
			}
		}
		if applies && f.Status == "open" {
			open[f.Obligation] = f
		}
	}
	// group by obligation name
	type agg struct {
		name            string
		n, ok           int
		ms              int64
		backends        map[string]int
		failed          []driver.ObResult
		fn, kind, layer string
	}
	byName := map[string]*agg{}
	var names []string
	for _, r := range all {
		a := byName[r.Name]
		if a == nil {
			a = &agg{name: r.Name, backends: map[string]int{}, fn: r.Func, kind: r.Kind, layer: r.Layer}
			byName[r.Name] = a
			names = append(names, r.Name)
		}
		a.n++
		a.ms += r.Millis
		if r.Status == "unsat" {
			a.ok++
			a.backends[r.Backend]++
		} else {
			a.failed = append(a.failed, r)
		}
	}
	sort.Strings(names)
	// slow obligations are the unstable ones: report them (never as violations)
	for _, r := range all {
		if r.Status == "unsat" && r.Millis > 4000 && r.Kind != "vacuity" {
			fmt.Printf("SLOW: %s took %d ms (%s)\n", r.ID, r.Millis, r.Backend)
		}
	}
	funcs := map[string]bool{}
	var oblList []map[string]interface{}
	total, discharged, knownN := 0, 0, 0
	violations := 0
	var solverMs int64
	var samples []interface{}
	seenFinding := map[string]bool{}
	hitFinding := map[string]bool{}
	for _, n := range names {
		a := byName[n]
		// path tags are part of obligation names, not of the function under contract
		fnName := a.fn
		if i := strings.Index(fnName, "["); i > 0 {
			fnName = fnName[:i]
		}
		funcs[fnName] = true
		solverMs += a.ms
		var bes []string
		for b, c := range a.backends {
			bes = append(bes, fmt.Sprintf("%s×%d", b, c))
		}
		sort.Strings(bes)
		entry := map[string]interface{}{"name": n, "layer": a.layer, "paths": a.n, "discharged": a.ok, "ms": a.ms, "backends": strings.Join(bes, ",")}
		if len(a.failed) == 0 {
			total += a.n
			discharged += a.ok
			entry["verdict"] = "discharged"
		} else if f, ok := matchFinding(open, n); ok && len(f.unexplained(a.failed)) == 0 {
			knownN += a.n
			entry["verdict"] = "known-finding"
			if !seenFinding[f.Obligation] {
				seenFinding[f.Obligation] = true
				fmt.Printf("KNOWN-FINDING: property=%s %s — %s\n", p.ID, f.Obligation, f.What)
			}
			hitFinding[f.Obligation] = true
		} else {
			total += a.n
			discharged += a.ok
			entry["verdict"] = "FAILED"
			violations++
			if f, ok := matchFinding(open, n); ok {
				// the obligation is a listed finding, but it fails in a way the finding does not describe
				a.failed = f.unexplained(a.failed)
			}
			rp := writeReplay(ctx, p.ID, a.failed[0])
			suffix := " no-failing-input-found"
			if strings.HasSuffix(rp, "#reproduced") {
				rp, suffix = strings.TrimSuffix(rp, "#reproduced"), ""
			}
			fmt.Printf("VIOLATION property=%s replay=%s%s\n", p.ID, rp, suffix)
			fmt.Printf("  failed obligation: %s (%s; %s)\n", n, a.failed[0].Status, a.failed[0].Pos)
			if msg := firstLine(a.failed[0].Output); msg != "" {
				fmt.Printf("  %s\n", msg)
			}
		}
		oblList = append(oblList, entry)
		if len(samples) < 6 && a.kind != "vacuity" {
			samples = append(samples, entry)
		}
	}
	// a listed open finding whose obligation no longer fails is reported (informational)
	for n, f := range open {
		if !hitFinding[n] && f.Property == p.ID {
			fmt.Printf("NOTE: known finding %q (%s) did not fail on this tree\n", n, f.What)
		}
	}
	var fl []string
	for f := range funcs {
		if f != "" {
			fl = append(fl, f)
		}
	}
	sort.Strings(fl)
	if total == 0 && knownN == 0 {
		fmt.Fprintf(os.Stderr, "gvc: property %s generated no obligations (vacuous run)\n", p.ID)
		return 2
	}
	ev := Evidence{PropertyID: p.ID, Tier: ctx.Tier, Seed: ctx.Seed, Level: level, Assumptions: p.Assumptions,
		WallS: time.Since(start).Seconds(), Violations: violations}
	// large obligation lists (tens of thousands of path-specific names) are
	// summarised per generator function and obligation kind; failed and
	// known-finding entries are always listed individually
	if len(oblList) > 400 {
		type grp struct {
			names, paths, discharged int
			ms                       int64
		}
		groups := map[string]*grp{}
		var keep []map[string]interface{}
		var order []string
		for _, en := range oblList {
			if en["verdict"] != "discharged" {
				keep = append(keep, en)
				continue
			}
			n := en["name"].(string)
			key := n
			if i := strings.Index(n, "["); i >= 0 {
				if j := strings.LastIndex(n, "]"); j > i {
					key = n[:i] + "[...]" + n[j+1:]
				}
			}
			g := groups[key]
			if g == nil {
				g = &grp{}
				groups[key] = g
				order = append(order, key)
			}
			g.names++
			g.paths += en["paths"].(int)
			g.discharged += en["discharged"].(int)
			g.ms += en["ms"].(int64)
		}
		sort.Strings(order)
		for _, k := range order {
			g := groups[k]
			keep = append(keep, map[string]interface{}{"name": k, "verdict": "discharged", "summarised_names": g.names, "paths": g.paths, "discharged": g.discharged, "ms": g.ms})
		}
		oblList = keep
	}
	// callee contracts the Layer-D functions of this run were checked against: verified here,
	// verified by another property's check, external (trusted), or assumed outright
	var callees []map[string]interface{}
	{
		verifiedHere := map[string]bool{}
		for _, g := range p.Groups {
			if g.Layer == "D" {
				for _, f := range g.Funcs {
					verifiedHere[f] = true
				}
			}
		}
		elsewhere := map[string][]string{}
		tab := Table()
		var ids []string
		for id := range tab {
			ids = append(ids, id)
		}
		sort.Strings(ids)
		for _, id := range ids {
			for _, g := range tab[id].Groups {
				if g.Layer == "D" {
					for _, f := range g.Funcs {
						elsewhere[f] = append(elsewhere[f], id)
					}
				}
			}
		}
		var ks []string
		for k := range ctx.L.UsedContracts {
			ks = append(ks, k)
		}
		sort.Strings(ks)
		for _, k := range ks {
			if verifiedHere[k] {
				continue
			}
			st := "assumed: repository function, contract not verified by any check"
			if !strings.HasPrefix(k, "derive.") {
				st = "trusted: standard-library call without a contract, treated as an uninterpreted pure function"
			}
			if con := ctx.L.Contracts.Funcs[k]; con != nil && con.Extern {
				st = "trusted: external function (standard library / dependency), contract written from its documentation"
			} else if len(elsewhere[k]) > 0 {
				st = "verified by the check of " + strings.Join(elsewhere[k], ", ")
			}
			callees = append(callees, map[string]interface{}{"function": k, "status": st})
		}
	}
	ev.Coverage = map[string]interface{}{
		"callee_contracts_used":     callees,
		"generator_paths":           pathStats,
		"obligations":               total,
		"discharged":                discharged,
		"known_finding_obligations": knownN,
		"checker_cmd":               fmt.Sprintf("./check %s  (gvc: VC generation over /repo working tree; back ends raced: %s)", p.ID, strings.Join(ctx.Runner.Solvers, ", ")),
		"trusted_base":              p.Trusted,
		"functions_under_contract":  fl,
		"obligation_list":           oblList,
		"samples":                   samples,
		"solver_ms_total":           solverMs,
		"explanation":               p.Note,
		"contract_files":            relFiles(ctx.L.Files),
	}
	os.MkdirAll(filepath.Join(ctx.VerifDir, "evidence"), 0o755)
	data, _ := json.MarshalIndent(ev, "", " ")
	if err := os.WriteFile(filepath.Join(ctx.VerifDir, "evidence", p.ID+".json"), data, 0o644); err != nil {
		fmt.Fprintln(os.Stderr, "gvc:", err)
		return 2
	}
	fmt.Printf("property %s: %d obligations, %d discharged, %d known-finding, %d failing names, %.1fs\n", p.ID, total, discharged, knownN, violations, ev.WallS)
	if violations > 0 {
		return 1
	}
	return 0
}

// clauseCoverage guards against a contract that is written but never turned
// into obligations (a missing serves/o-sig attribute, a guard no enumerated
// path satisfies): every labelled O-clause of the entry's contract must have
// produced at least one obligation on this run.
func clauseCoverage(ctx *Ctx, fn string, results []driver.ObResult) []driver.ObResult {
	con := ctx.L.Contracts.Funcs[fn]
	if con == nil {
		return nil
	}
	var out []driver.ObResult
	seen := map[string]bool{}
	for _, attr := range []string{"o-ensures", "o-rel-ensures", "o-closure-ensures", "o-closure-inv"} {
		for _, v := range con.Attrs[attr] {
			t := strings.TrimSpace(v)
			for strings.HasPrefix(t, "when ") {
				ws := strings.SplitN(t, " ", 3)
				if len(ws) < 3 {
					break
				}
				t = strings.TrimSpace(ws[2])
			}
			if !strings.HasPrefix(t, "[") || !strings.Contains(t, "]") {
				continue
			}
			label := t[1:strings.Index(t, "]")]
			if seen[attr+label] {
				continue
			}
			seen[attr+label] = true
			n := 0
			for _, r := range results {
				if i := strings.Index(r.Name, ":"+label); i >= 0 && !strings.Contains(r.Name, "/vacuity:") {
					rest := r.Name[i+1+len(label):]
					if rest == "" || !(rest[0] == '-' || rest[0] >= 'a' && rest[0] <= 'z' || rest[0] >= 'A' && rest[0] <= 'Z' || rest[0] >= '0' && rest[0] <= '9') {
						n++
					}
				}
			}
			name := "O:" + fn + "/vacuity:clause-exercised:" + label
			r := driver.ObResult{Name: name, ID: name + "#0", Kind: "vacuity", Func: fn, Status: "unsat", Backend: "obligation count", Layer: "O",
				Output: fmt.Sprintf("%d obligations from %s [%s]", n, attr, label)}
			if n == 0 {
				r.Status = "refuted"
				r.Output = fmt.Sprintf("the contract clause %s [%s] of %s produced no obligation on any path: the clause is not being checked", attr, label, fn)
			}
			out = append(out, r)
		}
	}
	return out
}

func relFiles(fs []string) []string {
	var out []string
	for _, f := range fs {
		out = append(out, strings.TrimPrefix(f, "/repo/"))
	}
	return out
}

func writeReplay(ctx *Ctx, prop string, r driver.ObResult) string {
	dir := filepath.Join(ctx.VerifDir, "replays")
	os.MkdirAll(dir, 0o755)
	h := sha256.Sum256([]byte(r.Name))
	path := filepath.Join(dir, prop+"-"+hex.EncodeToString(h[:5])+".json")
	smtText := ""
	if b, err := os.ReadFile(r.File); err == nil {
		smtText = string(b)
	}
	rep := map[string]interface{}{
		"property": prop, "obligation": r.Name, "obligation_id": r.ID, "kind": r.Kind, "function": r.Func,
		"position": r.Pos, "status": r.Status, "backend": r.Backend, "model": r.Model, "solver_output": r.Output,
		"smtlib": smtText, "reproduced": false,
		"note": "the named obligation is generated from /repo's current source and is discharged on the pinned tree; it is not discharged here",
	}
	if r.Concrete != "" && ctx.Replays < 6 {
		// at most six replays per run (each builds goderive and compiles a package)
		ctx.Replays++
		ok, log := replayConcrete(ctx, r.Concrete)
		rep["concrete_package"] = r.Concrete
		rep["replay_log"] = log
		rep["reproduced"] = ok
		if ok {
			rep["note"] = "replayed against the real code: goderive built from the working tree exits 0 on the concrete package and the package with its derived.gen.go does not compile"
		}
	}
	data, _ := json.MarshalIndent(rep, "", " ")
	os.WriteFile(path, data, 0o644)
	if rep["reproduced"] == true {
		return path + "#reproduced"
	}
	return path
}

var prefixRe = regexp.MustCompile(`derive\.NewPlugin\("([a-z]+)", "([A-Za-z]+)"`)

// pluginPrefixes reads the default prefixes from the plugins' NewPlugin calls.
func pluginPrefixes(repo string) map[string]string {
	out := map[string]string{}
	files, _ := filepath.Glob(filepath.Join(repo, "plugin", "*", "*.go"))
	for _, f := range files {
		data, err := os.ReadFile(f)
		if err != nil {
			continue
		}
		for _, m := range prefixRe.FindAllStringSubmatch(string(data), -1) {
			out[m[1]] = m[2]
		}
	}
	return out
}

// replayConcrete runs the real goderive (built from the repository's working
// tree) on a concrete package and compiles the result. The violation is
// reproduced when goderive exits 0 and the package does not compile.
func replayConcrete(ctx *Ctx, src string) (bool, string) {
	dir, err := os.MkdirTemp("", "gvc-replay-")
	if err != nil {
		return false, err.Error()
	}
	defer os.RemoveAll(dir)
	env := append(os.Environ(), "GOFLAGS=-mod=mod", "GOPROXY=off")
	bin := filepath.Join(dir, "goderive")
	var log strings.Builder
	run := func(wd string, name string, args ...string) (int, string) {
		cmd := exec.Command(name, args...)
		cmd.Dir = wd
		cmd.Env = env
		out, err := cmd.CombinedOutput()
		code := 0
		if err != nil {
			code = 1
			if ee, ok := err.(*exec.ExitError); ok {
				code = ee.ExitCode()
			}
		}
		fmt.Fprintf(&log, "$ %s %s  (exit %d)\n%s\n", filepath.Base(name), strings.Join(args, " "), code, firstLines(string(out), 12))
		return code, string(out)
	}
	if code, _ := run(ctx.Repo, "go", "build", "-o", bin, "."); code != 0 {
		return false, log.String()
	}
	pkg := filepath.Join(dir, "replay")
	os.MkdirAll(pkg, 0o755)
	os.WriteFile(filepath.Join(pkg, "go.mod"), []byte("module replay\n\ngo 1.24\n"), 0o644)
	os.WriteFile(filepath.Join(pkg, "replay.go"), []byte(src), 0o644)
	gcode, _ := run(pkg, bin, ".")
	if gcode != 0 {
		return false, log.String()
	}
	bcode, _ := run(pkg, "go", "build", "./...")
	return bcode != 0, log.String()
}

func firstLines(s string, n int) string {
	ls := strings.Split(strings.TrimSpace(s), "\n")
	if len(ls) > n {
		ls = append(ls[:n], "...")
	}
	return strings.Join(ls, "\n")
}

func firstLine(s string) string {
	for _, ln := range strings.Split(s, "\n") {
		ln = strings.TrimSpace(ln)
		if ln != "" && !strings.HasPrefix(ln, "[") {
			if len(ln) > 300 {
				ln = ln[:300] + "..."
			}
			return ln
		}
	}
	return ""
}

// matchFinding: a finding names one obligation; '*' in it matches any run of
// characters (used only to cover the arity / operand-class variants of the
// same path and postcondition).
func matchFinding(open map[string]Finding, name string) (Finding, bool) {
	if f, ok := open[name]; ok {
		return f, true
	}
	var keys []string
	for k := range open {
		keys = append(keys, k)
	}
	sort.Strings(keys)
	for _, k := range keys {
		if strings.Contains(k, "*") && globMatch(k, name) {
			return open[k], true
		}
	}
	return Finding{}, false
}

func globMatch(pat, s string) bool {
	parts := strings.Split(pat, "*")
	if !strings.HasPrefix(s, parts[0]) {
		return false
	}
	s = s[len(parts[0]):]
	for i := 1; i < len(parts); i++ {
		p := parts[i]
		if i == len(parts)-1 {
			return strings.HasSuffix(s, p)
		}
		j := strings.Index(s, p)
		if j < 0 {
			return false
		}
		s = s[j+len(p):]
	}
	return true
}

// Replay re-runs the replay recorded in a replay file against the repository's
// working tree. It returns 1 when the violation reproduces, 0 when it does not,
// 2 when the file carries no concrete input.
func Replay(ctx *Ctx, path string) int {
	data, err := os.ReadFile(path)
	if err != nil {
		fmt.Fprintln(os.Stderr, "gvc:", err)
		return 2
	}
	var rep map[string]interface{}
	if err := json.Unmarshal(data, &rep); err != nil {
		fmt.Fprintln(os.Stderr, "gvc:", err)
		return 2
	}
	fmt.Printf("obligation: %v\nstatus on the run that wrote the file: %v\n", rep["obligation"], rep["status"])
	src, _ := rep["concrete_package"].(string)
	if src == "" {
		fmt.Println("no concrete input was found for this obligation (no-failing-input-found): the file carries the failed obligation, the solver output and the SMT-LIB text")
		return 2
	}
	ok, log := replayConcrete(ctx, src)
	fmt.Print(log)
	if ok {
		fmt.Println("REPRODUCED: goderive exits 0 on the concrete package and the result does not compile")
		return 1
	}
	fmt.Println("not reproduced on the current tree")
	return 0
}
