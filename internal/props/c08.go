package props

import (
	"fmt"
	"go/ast"
	"go/token"
	"go/types"
	"sort"
	"strings"

	"gvc/internal/driver"
	"gvc/internal/geval"
)

// nondetSources is C08's frame obligation: the generator's own code (packages
// derive, plugin/*, main; test files excluded) contains no source of
// nondeterminism other than the map-range loops that are under an
// order-independence contract, and no mutable package-level state that could
// carry information from one package of an invocation to the next.
//
// What is scanned for: range over a map, go statements, select statements,
// calls into math/rand, time.Now/Since, os.Getenv/Environ/Getpid, and
// assignments to package-level variables. Text inside string literals (the
// emitted code) is not generator code.
func nondetSources(ctx *Ctx, allowed map[string]bool) []driver.ObResult {
	type hit struct{ what, where string }
	var hits []hit
	seenAllowed := map[string]bool{}
	var pkgs []string
	for k := range ctx.L.Pkgs {
		pkgs = append(pkgs, k)
	}
	sort.Strings(pkgs)
	nfuncs := 0
	for _, pk := range pkgs {
		p := ctx.L.Pkgs[pk]
		if !strings.HasPrefix(pk, driver.Module) {
			continue
		}
		for _, f := range p.Syntax {
			fname := ctx.L.Fset.Position(f.Pos()).Filename
			if strings.HasSuffix(fname, "_test.go") || strings.HasSuffix(fname, "contracts_verif.go") {
				continue
			}
			for _, d := range f.Decls {
				fd, ok := d.(*ast.FuncDecl)
				if !ok || fd.Body == nil {
					continue
				}
				nfuncs++
				key := p.Types.Name() + "."
				if fd.Recv != nil && len(fd.Recv.List) == 1 {
					t := fd.Recv.List[0].Type
					if st, ok := t.(*ast.StarExpr); ok {
						t = st.X
					}
					if id, ok := t.(*ast.Ident); ok {
						key += id.Name + "."
					}
				}
				key += fd.Name.Name
				ast.Inspect(fd.Body, func(n ast.Node) bool {
					pos := func(n ast.Node) string {
						ps := ctx.L.Fset.Position(n.Pos())
						return fmt.Sprintf("%s:%d", strings.TrimPrefix(ps.Filename, ctx.L.Repo+"/"), ps.Line)
					}
					switch s := n.(type) {
					case *ast.RangeStmt:
						if t := p.TypesInfo.TypeOf(s.X); t != nil {
							if _, ok := t.Underlying().(*types.Map); ok {
								if allowed[key] {
									seenAllowed[key] = true
								} else {
									hits = append(hits, hit{"range over a map in " + key, pos(s)})
								}
							}
						}
					case *ast.GoStmt:
						hits = append(hits, hit{"go statement in " + key, pos(s)})
					case *ast.SelectStmt:
						hits = append(hits, hit{"select statement in " + key, pos(s)})
					case *ast.CallExpr:
						if se, ok := s.Fun.(*ast.SelectorExpr); ok {
							if id, ok := se.X.(*ast.Ident); ok {
								if pn, ok := p.TypesInfo.Uses[id].(*types.PkgName); ok {
									q := pn.Imported().Path() + "." + se.Sel.Name
									switch {
									case pn.Imported().Path() == "math/rand", pn.Imported().Path() == "crypto/rand",
										q == "time.Now", q == "time.Since", q == "os.Getenv", q == "os.Environ", q == "os.Getpid", q == "os.Hostname":
										hits = append(hits, hit{"call of " + q + " in " + key, pos(s)})
									}
								}
							}
						}
					case *ast.AssignStmt:
						for _, l := range s.Lhs {
							if o := rootObj(p.TypesInfo, l); o != nil && o.Parent() == p.Types.Scope() && s.Tok != token.DEFINE {
								hits = append(hits, hit{"assignment to the package-level variable " + o.Name() + " in " + key, pos(s)})
							}
						}
					case *ast.IncDecStmt:
						if o := rootObj(p.TypesInfo, s.X); o != nil && o.Parent() == p.Types.Scope() {
							hits = append(hits, hit{"update of the package-level variable " + o.Name() + " in " + key, pos(s)})
						}
					}
					return true
				})
			}
		}
	}
	var out []driver.ObResult
	name := "derive+plugins+main/frame:nondeterminism-sources"
	if len(hits) == 0 {
		out = append(out, driver.ObResult{Name: name, ID: name + "#0", Kind: "frame", Func: "(all generator packages)", Status: "unsat", Backend: "go/ast+go/types scan",
			Layer: "D", Output: fmt.Sprintf("%d functions scanned", nfuncs)})
	} else {
		var msgs []string
		for _, h := range hits {
			msgs = append(msgs, h.what+" ("+h.where+")")
		}
		out = append(out, driver.ObResult{Name: name, ID: name + "#0", Kind: "frame", Func: "(all generator packages)", Status: "refuted", Backend: "go/ast+go/types scan",
			Layer: "D", Output: "sources of nondeterminism outside the functions under an order-independence contract: " + strings.Join(msgs, "; ")})
	}
	// every function the allow-list names must still contain its map range (otherwise the list is stale)
	var ks []string
	for k := range allowed {
		ks = append(ks, k)
	}
	sort.Strings(ks)
	for _, k := range ks {
		n := k + "/frame:map-range-under-contract"
		st := "unsat"
		msg := ""
		if !seenAllowed[k] {
			st, msg = "refuted", "the function no longer ranges over a map: the allow-list of C08 is stale"
		}
		out = append(out, driver.ObResult{Name: n, ID: n + "#0", Kind: "frame", Func: k, Status: st, Backend: "go/ast+go/types scan", Layer: "D", Output: msg})
	}
	return out
}

func rootObj(info *types.Info, e ast.Expr) types.Object {
	for {
		switch x := ast.Unparen(e).(type) {
		case *ast.Ident:
			if o, ok := info.Uses[x].(*types.Var); ok {
				return o
			}
			return nil
		case *ast.IndexExpr:
			e = x.X
		case *ast.SelectorExpr:
			if id, ok := x.X.(*ast.Ident); ok {
				if _, isPkg := info.Uses[id].(*types.PkgName); isPkg {
					if o, ok := info.Uses[x.Sel].(*types.Var); ok {
						return o
					}
					return nil
				}
			}
			e = x.X
		case *ast.StarExpr:
			e = x.X
		default:
			return nil
		}
	}
}

// flatPredConformance: the predicates the contracts abstract to "comparable and
// reference-free" (abstract: pred flat) are checked against their bodies: every
// path of the body, with its recursive calls abstracted, answers what the flat
// predicate answers for the argument type as the path finally knows it.
func flatPredConformance(ctx *Ctx, keys ...string) ([]driver.ObResult, error) {
	var out []driver.ObResult
	for _, key := range keys {
		name := "G:" + key + "/abstract-conforms:flat"
		con := ctx.L.Contracts.Funcs[key]
		if con == nil || !strings.Contains(con.Attr("abstract"), "flat") {
			out = append(out, driver.ObResult{Name: name, ID: name + "#0", Kind: "contract-applies", Func: key, Status: "refuted", Backend: "gvc", Layer: "G",
				Output: "no contract 'abstract: pred flat' for " + key})
			continue
		}
		it := geval.NewInterp(ctx.L)
		paths, err := it.FlatPredConformance(key, 5000)
		if err != nil {
			out = append(out, driver.ObResult{Name: name, ID: name + "#0", Kind: "contract-applies", Func: key, Status: "refuted", Backend: "gvc", Layer: "G", Output: err.Error()})
			continue
		}
		n := 0
		for i, p := range paths {
			if ok, _ := p.Consistent(); !ok {
				continue
			}
			n++
			r := driver.ObResult{Name: name, ID: fmt.Sprintf("%s#%d", name, i), Kind: "post", Func: key, Status: "unsat", Backend: "symbolic evaluation (geval)", Layer: "G"}
			switch {
			case p.Unsupported != nil:
				r.Status, r.Output = "refuted", fmt.Sprintf("the body leaves the evaluator's subset: %v on path %s", *p.Unsupported, p.Name())
			case p.Aborted != "":
				r.Status, r.Output = "refuted", "aborted: "+p.Aborted+" on path "+p.Name()
			case p.Conformance != "":
				r.Status, r.Output = "refuted", p.Conformance+" on path "+p.Name()
			}
			out = append(out, r)
		}
		if n == 0 {
			out = append(out, driver.ObResult{Name: name, ID: name + "#0", Kind: "vacuity", Func: key, Status: "refuted", Backend: "gvc", Layer: "G", Output: "no feasible path"})
		}
	}
	return out, nil
}
