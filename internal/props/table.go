package props

import "gvc/internal/driver"

// Table lists the claimed properties and the obligations that decide them.
func Table() map[string]*Property {
	t := map[string]*Property{}
	add := func(p *Property) { t[p.ID] = p }

	add(&Property{
		ID: "C11",
		Groups: []Group{{Layer: "D", Pkg: "derive", Funcs: []string{
			"derive.eq", "derive.typesMap.nameOf", "derive.typesMap.newName", "derive.typesMap.SetFuncName",
			"derive.typesMap.GetFuncName", "derive.typesMap.Generating", "derive.typesMap.isGenerated",
		}}},
		Assumptions: []string{
			"A-int: machine integers are mathematical integers",
			"EqIsEquivalence: assignability (derive.eq) is reflexive, symmetric and transitive on the argument type lists involved (the property quantifies over pairwise non-assignable types)",
			"function values stored in fields (tm.qual) do not write typesMap state",
			"termination of newName's search and of the mutual recursion SetFuncName/GetFuncName is argued on paper",
		},
		Trusted: []string{"go/types: AssignableTo, Default, TypeString, Named.Obj, object.Pkg/Name, Basic.Kind (uninterpreted, pure)",
			"strconv.Itoa, fmt.Errorf (returns non-nil)", "string lemmas: hasPrefix(p,p); hasPrefix(a,p) ==> hasPrefix(a+b,p)",
			"gvc VC generator; z3 4.8.12, z3 5.1.0, cvc5 1.0"},
		Note: "SetFuncName's four-case contract (same / duplicate / conflict / fresh) with flag-controlled resolution, injectivity of the name table, freshness of minted names w.r.t. the table and the reserved names",
	})
	semantic := func(r driver.ObResult) bool {
		// obligations about what the emitted text means (and that it can be given a meaning at all)
		return r.Layer == "O"
	}
	add(&Property{
		ID: "C02",
		Groups: []Group{{Layer: "O", Funcs: []string{"equal.gen.field", "equal.gen.genStatement", "equal.gen.genFunc", "equal.gen.genCurriedFunc"}, Only: semantic}},
		Assumptions: []string{
			"A-int; A-cfg (a hole replaced by a representative of its grammar class parses the same way); A-param (go/types is parametric in opaque named types)",
			"Go == on comparable, reference-free types is structural equality (Go spec); a flat struct containing a named component with its own Equal method is compared with == (accepted reading, DESIGN.md)",
			"struct field counts, and the number of unexported/imported fields, are enumerated up to 3 (bounded in arity; unbounded in values, nesting depth and component types)",
			"user Equal methods are total, pure, deterministic, take the type / a pointer to it / an interface, and treat nil receivers structurally",
			"reflect.Indirect(reflect.ValueOf(p)).FieldByName(n).UnsafeAddr() cast and dereferenced denotes p.n for non-nil p",
			"termination of the emitted recursion follows from the property's acyclic-values hypothesis (not mechanised)",
		},
		Trusted: []string{"bytes.Equal contract (length and bytes, not nil-ness)", "go/parser, go/types on the schematic programs", "gvc Layer G symbolic evaluator and VC generator; z3, z3 5.1.0, cvc5"},
		Note:    "every path of equal.field / genStatement / genFunc / genCurriedFunc: emitted text parses, holes intact, type-checks under the path's prelude, and returns exactly the structural-equality specification EqTop/EqC (one level unfolded, components by contract); curried form agrees with the binary form",
	})
	return t
}
