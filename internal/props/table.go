package props

// Table lists the claimed properties and the obligations that decide them.
func Table() map[string]*Property {
	t := map[string]*Property{}
	add := func(p *Property) { t[p.ID] = p }

	add(&Property{
		ID: "C11",
		Groups: []Group{{Layer: "D", Pkg: "derive", Funcs: []string{
			"derive.eq", "derive.typesMap.nameOf", "derive.typesMap.newName", "derive.typesMap.SetFuncName",
			"derive.typesMap.GetFuncName", "derive.typesMap.Generating", "derive.typesMap.isGenerated",
		}}},
		Assumptions: []string{
			"A-int: machine integers are mathematical integers",
			"EqIsEquivalence: assignability (derive.eq) is reflexive, symmetric and transitive on the argument type lists involved (the property quantifies over pairwise non-assignable types)",
			"function values stored in fields (tm.qual) do not write typesMap state",
			"termination of newName's search and of the mutual recursion SetFuncName/GetFuncName is argued on paper",
		},
		Trusted: []string{"go/types: AssignableTo, Default, TypeString, Named.Obj, object.Pkg/Name, Basic.Kind (uninterpreted, pure)",
			"strconv.Itoa, fmt.Errorf (returns non-nil)", "string lemmas: hasPrefix(p,p); hasPrefix(a,p) ==> hasPrefix(a+b,p)",
			"gvc VC generator; z3 4.8.12, z3 5.1.0, cvc5 1.0"},
		Note: "SetFuncName's four-case contract (same / duplicate / conflict / fresh) with flag-controlled resolution, injectivity of the name table, freshness of minted names w.r.t. the table and the reserved names",
	})
	return t
}
