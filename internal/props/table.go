package props

import (
	"gvc/internal/driver"
	"gvc/internal/vc"
	"strings"
)

// Table lists the claimed properties and the obligations that decide them.
func Table() map[string]*Property {
	t := map[string]*Property{}
	add := func(p *Property) { t[p.ID] = p }
	fsGhost := []vc.GhostVar{{Name: "fs", Type: "map[string]string"}, {Name: "foff", Type: "map[*os.File]int"}, {Name: "handledBy", Type: "Generator"}, {Name: "synced", Type: "bool"}, {Name: "prefixesFrozen", Type: "bool"}, {Name: "renamedUnsaved", Type: "bool"}}

	// the same ghost state, with types that resolve in package main
	mainGhost := []vc.GhostVar{{Name: "fs", Type: "map[string]string"}, {Name: "foff", Type: "map[string]int"}, {Name: "handledBy", Type: "derive.Generator"}, {Name: "synced", Type: "bool"}, {Name: "prefixesFrozen", Type: "bool"}, {Name: "renamedUnsaved", Type: "bool"}, {Name: "runFailed", Type: "bool"}}

	add(&Property{
		ID: "C11",
		Groups: []Group{{Layer: "D", Pkg: "derive", Funcs: []string{
			"derive.eq", "derive.typesMap.nameOf", "derive.typesMap.newName", "derive.typesMap.SetFuncName",
			"derive.typesMap.GetFuncName", "derive.typesMap.Generating", "derive.typesMap.isGenerated",
		}}, {Layer: "D", Pkg: "derive", Ghost: fsGhost, Funcs: []string{"derive.union", "derive.newPackage",
			// the way of the two flags from the command line to every type table: each hand-over keeps each flag in its own place
			"derive.newTypesMap", "derive.program.generatePackage", "derive.program.Generate", "derive.plugins.Load", "derive.NewPlugins"}},
			{Layer: "D", Pkg: "main", Ghost: mainGhost, Funcs: []string{"main.main"}}},
		Assumptions: []string{
			"A-int: machine integers are mathematical integers",
			"EqIsEquivalence: assignability (derive.eq) is reflexive, symmetric and transitive on the argument type lists involved (the property quantifies over pairwise non-assignable types)",
			"function values stored in fields (tm.qual) do not write typesMap state",
			"the two flags are followed from the command line to every type table (main.main, NewPlugins, plugins.Load, generatePackage, newPackage, newTypesMap: each hand-over keeps each flag in its own place); that a plugin's constructor hands the type table it was given to its generator (Plugin.New) is an assumed contract",
			"termination of newName's search and of the mutual recursion SetFuncName/GetFuncName is argued on paper",
		},
		Trusted: []string{"go/types: AssignableTo, Default, TypeString, Named.Obj, object.Pkg/Name, Basic.Kind (uninterpreted, pure)",
			"strconv.Itoa, fmt.Errorf (returns non-nil)", "string lemmas: hasPrefix(p,p); hasPrefix(a,p) ==> hasPrefix(a+b,p)",
			"gvc VC generator; z3 4.8.12, z3 5.1.0, cvc5 1.0"},
		Note: "SetFuncName's four-case contract (same / duplicate / conflict / fresh) with flag-controlled resolution, injectivity of the name table, freshness of minted names w.r.t. the table and the reserved names",
	})
	fsTrusted := []string{
		"external contracts (trusted): os.Create (creates/truncates), os.OpenFile (truncates iff O_TRUNC, no creation without O_CREATE), os.Stat, os.IsNotExist, os.Remove, (*os.File).Close, go/format.Node and printer.WriteTo (write their bytes at the handle's offset: content' = overwrite(content, offset, data))",
		"overwrite axioms: appending at the end concatenates; writing at offset 0 over a content that is not longer replaces it; over a longer content leaves a tail",
		"assumed (not verified) contracts of repository functions: newPrinter/newQualifier/newTypesMap/Plugin.New return non-nil, load (returns a program with a file set), pkg.Generate's frame (writes only printer and type-table state; its work-list clause is C01's)",
		"trusted facts about loaded packages (loader.Program.Package / InitialPackages): non-nil package, no nil object in types.Info.Uses, no nil *ast.File; ast.Walk calls nothing but the visitor's Visit (keeps the finder's invariant, which Visit is verified to keep)",
		"fresh allocations are distinct from every address reachable from the state at the allocation",
		"gvc VC generator; z3 4.8.12, z3 5.1.0, cvc5 1.0",
	}
	add(&Property{
		ID: "C10",
		Groups: []Group{{Layer: "D", Pkg: "derive", Ghost: fsGhost, Funcs: []string{"derive.pkg.Filename", "derive.pkg.Print", "derive.pkg.Delete", "derive.pkg.Add", "derive.newPackage", "derive.program.generatePackage", "derive.program.Generate",
			"derive.finder.Visit", "derive.getInputTypes", "derive.newCall", "derive.newFileInfos"}},
			{Layer: "D", Pkg: "main", Ghost: mainGhost, Funcs: []string{"main.main"}}},
		Assumptions: []string{
			"A-int; Go maps and slices are modelled as values (no aliasing between distinct map/slice variables); guarded since round 12 by the argument-ownership obligations: an element write to a map/slice parameter needs 'mutates-arg', and an argument a callee mutates must be made by the caller (aliases created by append sharing a backing array, or by storing one map in two fields, are still not modelled)",
			"go/format's output for an AST is 'the gofmt formatting' (Format is uninterpreted); comment placement is go/printer's business",
			"Generator.Add returns the registered name unless the generator was built with -autoname/-dedup (checked per plugin at Layer G: Add returns SetFuncName's result; SetFuncName's no-flags clause is C11's)",
			"termination is not verified",
		},
		Trusted: fsTrusted,
		Note:    "frame on the ghost file system: newPackage changes no file without -autoname/-dedup (the 'unreachable' rename panic is proved unreachable), never touches derived.gen.go, creates or deletes nothing, and a rewritten file holds exactly Format(ast) (needs truncation); generatePackage changes only derived.gen.go (plus rewritten sources under the flags), on every return including errors; Print/Delete touch only Filename()",
	})
	add(&Property{
		ID: "C07",
		Groups: []Group{{Layer: "D", Pkg: "derive", Ghost: fsGhost, Funcs: []string{"derive.pkg.Filename", "derive.pkg.Print", "derive.pkg.Delete", "derive.program.generatePackage", "derive.program.Generate",
			"derive.finder.Visit", "derive.getInputTypes", "derive.newCall", "derive.newFileInfos", "derive.pkg.Add", "derive.newPackage"}}},
		Assumptions: []string{
			"decided: the file effects (R1 Print leaves exactly the printer's bytes in derived.gen.go whatever it held before, incl. a longer or truncated remnant; R2 on every successful return the derived file was written from the last package state or removed; Print is reached only with content, Delete only without)",
			"NOT decided by any contract within reach: that the argument types goderive reads at the call sites are independent of the old derived.gen.go - that is go/types run over user sources plus the old file (loader, AllowErrors); the stale-signature case (deriveSort(deriveKeys(m)) after m's key type changes) found by hand in the design round is therefore outside this check",
			"decided since the fix a0f26d4: R4 the calls of a file are registered in source order whether or not the old derived.gen.go defines them (newPackage, obligation registration-in-source-order); with R3 (newFileInfos never scans derived.gen.go) the sequence of registrations is a function of the user sources and of go/types' classification of each call only",
			"newFileInfos never scanning or handing out derived.gen.go is verified (find.go), given isDerivedFile(p) <==> the last path element is derived.gen.go",
		},
		Trusted: fsTrusted,
		Note:    "file-effect half of the property only; see assumptions",
	})
	add(&Property{
		ID: "C12",
		Groups: []Group{{Layer: "D", Pkg: "derive", Ghost: fsGhost, Funcs: []string{"derive.sortPlugins", "derive.pkg.Add", "derive.NewPlugins", "derive.plugins.Load",
			// the sorted collection is handed over unchanged down to the package that dispatches the calls
			"derive.program.Generate", "derive.program.generatePackage", "derive.newPackage"}},
			{Layer: "D", Pkg: "main", Ghost: mainGhost, Funcs: []string{"main.main"}}},
		Assumptions: []string{
			"string lemmas: hasPrefix(s,p) ==> len(p) <= len(s); byte-wise string order is a strict total order",
			"main.main is under contract for the ORDER of operations only (every SetPrefix precedes NewPlugins' sort: ghost typestate prefixesFrozen; the sorted collection reaches every newPackage through plugins.Load and program.Generate); which prefix string main computes (strings.Replace of 'derive' by -prefix, per-plugin override) is not specified",
			"Plugin.GetPrefix is modelled as an attribute of the plugin (pure); sound because SetPrefix is forbidden once the collection is sorted (obligation prefixes-not-frozen at every SetPrefix call in main)",
			"prefix parametricity of the emitted templates: generated function names enter emitted text only as FuncName holes produced by GetFuncName (Layer G; see C01)",
			"uniqueness of the winner for pairwise distinct prefixes follows on paper: two matching prefixes of equal length are the same string",
		},
		Trusted: []string{"sort.Slice: result is a rearrangement without inversions w.r.t. a strict weak order (the less function is proved to be one)", "gvc VC generator; SMT solvers"},
		Note:    "sortPlugins leaves the plugins sorted by (prefix length desc, prefix desc); pkg.Add hands the call to the first plugin whose prefix matches, which under that order has the longest matching prefix; no plugin is consulted when none matches",
	})
	textKinds := map[string]bool{"G4": true, "typecheck": true, "header": true, "hole-integrity": true}
	semantic := func(r driver.ObResult) bool {
		// obligations about what the emitted text means, including that it can be
		// given a meaning at all (parses, type-checks): a path that does not
		// type-check has no verification conditions
		_ = textKinds
		return r.Layer == "O"
	}
	oTrusted := []string{"go/parser, go/types on the schematic programs", "gvc Layer G symbolic evaluator and VC generator; z3 4.8.12, z3 5.1.0, cvc5 1.0"}
	oAssume := []string{
		"A-int (machine integers are mathematical integers; only a difference of two non-constant signed operands carries a no-overflow obligation); A-cfg (a hole replaced by a representative of its grammar class parses the same way); A-param (go/types is parametric in opaque named types)",
		"slices and maps of emitted code are modelled as values: aliasing between distinct slice variables that share a backing array is not modelled",
		"function-typed parameters (predicates, mapped functions) are deterministic, total and do not write the memory the helper works on",
		"helper functions emitted by other plugins are used by their contracts (equal: EqTop; compare: a total preorder CmpTop with values in {-1,0,1}; contains/keys/set: their own o-ensures)",
	}
	add(&Property{
		ID:     "C13",
		Groups: []Group{{Layer: "O", Funcs: []string{"keys.gen.genFuncFor", "sort.gen.genFuncFor", "min.gen.genTwo", "min.gen.genSlice", "max.gen.genTwo", "max.gen.genSlice"}, Only: semantic}},
		Assumptions: append([]string{
			"sort.Strings/Ints/Float64s/Slice: the result is a rearrangement of the input without inversions (for sort.Slice: w.r.t. the less function, which is proved a strict weak order); 'permutation' is the uninterpreted predicate perm plus mutual element coverage",
			"floats are NaN-free and totally ordered",
		}, oAssume...),
		Trusted: oTrusted,
		Note:    "Keys: every key exactly once (visited-set invariant over an arbitrary iteration order); Sort: permutation, non-decreasing under CmpTop; Min/Max: an element of the list that nothing precedes/follows, the default when empty, two-value forms return one of the arguments",
	})
	add(&Property{
		ID: "C14",
		Extra: func(ctx *Ctx) ([]driver.ObResult, error) {
			return flatPredConformance(ctx, "contains.canEqual", "derive.IsComparable")
		},
		Groups: []Group{{Layer: "O", Funcs: []string{"contains.gen.genFuncFor", "unique.gen.genFuncFor", "set.gen.genFuncFor", "union.gen.genMap", "union.gen.genSlice",
			"intersect.gen.genMap", "intersect.gen.genSlice", "filter.gen.genFuncFor", "takewhile.gen.genFuncFor", "all.gen.genFuncFor", "any.gen.genFuncFor"}, Only: semantic}},
		Assumptions: append([]string{
			"lemma L-count (induction, trusted): countIf is monotone and strictly increases across a counted position",
			"Unique on elements that are not ==-comparable (hash-bucket path) relies on the contract of derived Hash (Equal ==> same hash; proved under C04) through HashSpec",
		}, oAssume...),
		Trusted: oTrusted,
		Note:    "Contains <=> some element Equal to the item; Set/Union/Intersect are the mathematical set operations (lists: first list's order, then new items); Filter keeps exactly the satisfying elements in order (countIf characterisation); TakeWhile the maximal satisfying prefix; All/Any the quantifiers; the predicate is called on elements in order and not after the stopping point (effect trace)",
	})
	add(&Property{
		ID:     "C15",
		Groups: []Group{{Layer: "O", Funcs: []string{"curry.gen.genFuncFor", "uncurry.gen.genFuncFor", "flip.gen.genFuncFor", "apply.gen.Generate", "tuple.gen.genFuncFor"}, Only: semantic}},
		Assumptions: append([]string{
			"arities (parameters, results) are enumerated up to 3; function types are explored with and without parameter names (go/types prints names only when present)",
			"go/types prints a signature as func(name type, ...) results - the schematic text is rendered the same way (conformance with the real TypeString is not replayed)",
			"non-variadic signatures only (the property's own restriction); for Uncurry the function returned by f is non-nil",
		}, oAssume...),
		Trusted: oTrusted,
		Note:    "at the return of the innermost emitted closure: exactly one call of f (two for Uncurry: f, then its result) with every closure argument in its position (first two swapped for Flip, last pre-bound for Apply), results returned unchanged; Tuple's closure yields exactly its arguments; capture analysis of user-chosen parameter names",
	})
	add(&Property{
		ID:     "C16",
		Groups: []Group{{Layer: "O", Funcs: []string{"compose.gen.genError", "fmap.gen.genError", "join.gen.genError", "traverse.gen.genSlice", "toerror.gen.genFuncFor"}, Only: semantic}},
		Assumptions: append([]string{
			"arities enumerated: Compose 2-3 stages with up to 2 parameters/results each, the others up to 3",
			"result types are forked into 'has nil as a value' / 'has not' where derive.Zero's answer depends on it",
		}, oAssume...),
		Trusted: oTrusted,
		Note:    "Compose: stages left to right, each once on the previous results, stop at the first error, exactly that error, zero values otherwise, last results and nil on success (composeSpec over the effect trace); Fmap/Join error forms: g (resp. err) first, f only on success; Traverse: nil slice and the first error, no call after it; ToError: one call, other results passed through, nil iff f reports true, the supplied error otherwise",
	})
	add(&Property{
		ID:     "C17",
		Groups: []Group{{Layer: "O", Funcs: []string{"fmap.gen.genSlice", "fmap.gen.genString", "join.gen.genSlice", "join.gen.genString"}, Only: semantic}},
		Assumptions: append([]string{
			"range over a string yields (byte offset, rune) pairs: offsets strictly increase by 1..4, start at 0, end at len(s); the number of pairs is len([]rune(s)) - this holds for invalid UTF-8 too",
			"lemma (induction, trusted): sumLen is monotone; strings.Join is the uninterpreted strJoin",
			"'inputs are not modified' is the ownership obligation: element writes, appends, copy, delete and sorting only on slices and maps the function allocated itself (flow-insensitive, conservative)",
		}, oAssume...),
		Trusted: oTrusted,
		Note:    "Fmap over a slice / the runes of a string: same length, i-th result is f of the i-th input, f called once per element in order (in-bounds indexing under the rune-iteration model); Join of slices: nil for nil, length is the sum, elements in order (sumLen characterisation); Join of strings: strings.Join(list, \"\")",
	})
	add(&Property{
		ID:     "C03",
		Extra:  func(ctx *Ctx) ([]driver.ObResult, error) { return flatPredConformance(ctx, "equal.canEqual") },
		Groups: []Group{{Layer: "O", Funcs: []string{"compare.gen.field", "compare.gen.genStatement", "compare.gen.genFunc", "compare.gen.genCurriedFunc"}, Only: semantic}},
		Assumptions: append([]string{
			"the specification function CmpTop is taken from the property: false<true, numeric <, byte-wise strings, real before imaginary part, nil first, shorter first, then lexicographic by position / field, maps of equal size through their sorted key enumerations; a different total order would fail the functional clause although the property allows it",
			"floats are NaN-free and totally ordered by flt_lt / flt_eq",
			"lexicographic comparison of sequences is defined by one axiom with an explicit witness function (least-number principle; conservative)",
			"lemma L-sortedkeys (trusted; Mathlib: Finset.sort, List.eq_of_perm_of_sorted): for value key types the sorted enumeration of a map's keys exists, is strictly increasing, unique, and a function of the key set",
			"a []byte component is handed to bytes.Compare (a different total order, consistent with bytes.Equal): that path is text-level only, not under the functional contract",
			"user Compare methods are total preorders with values in {-1,0,1} that are zero exactly on values the type's equality accepts and treat nil receivers nil-first",
			"struct field counts are enumerated up to 3 (bounded in arity)",
			"termination of the emitted recursion follows from the acyclic-values hypothesis (not mechanised)",
		}, oAssume...),
		Trusted: append([]string{"strings.Compare contract (sign of byte-wise order)", "sort.Slice/Strings/Ints/Float64s: rearrangement without inversions that keeps pairwise distinct elements pairwise distinct"}, oTrusted...),
		Note:    "every path of compare.field / genStatement / genFunc / genCurriedFunc returns exactly CmpTop (one level unfolded, components by contract), the curried form agrees with the binary form; per type shape the lemmas about CmpTop itself: values in {-1,0,1}, antisymmetric, transitive (also strict), zero exactly when EqTop holds - with the order axioms of the components as induction hypothesis",
	})
	add(&Property{
		ID:     "C04",
		Groups: []Group{{Layer: "O", Funcs: []string{"hash.gen.field", "hash.gen.genStatement", "hash.gen.genFunc"}, Only: semantic}},
		Assumptions: append([]string{
			"relational verification on a product program built mechanically from the emitted function (two renamed copies in lockstep; branch agreement is an obligation, never an assumption); statements outside the product's shape (switch, break, closures, range over maps) make the construction fail, which is reported as contract-applies",
			"callers use a hash function through HashSpec(T, x), a function of the value with EqC(T,x,y) ==> HashSpec(T,x) == HashSpec(T,y); its existence is what the relational clause proves (induction over the type structure; recursion through the helper contracts)",
			"HashSpec / EqSpec are heap-less: sound while the function under proof only extends the heap by fresh cells (checked: the emitted hash functions are pure)",
			"machine arithmetic (31*h + c, wrapping) is a deterministic function of its operands; overflow is not an obligation",
			"IEEE 754 (trusted): x + 0 maps +0 and -0 to +0 and leaves other non-NaN values unchanged, so ==-equal floats have equal bits after adding 0",
			"repeatability across processes: the emitted code has no source of nondeterminism other than map iteration, which it only uses through sorted keys (lemma L-sortedkeys as in C03)",
			"user Hash methods are total functions of the receiver's value consistent with the type's equality",
			"'does not modify its argument': heap frame of the emitted function plus the ownership obligation for slices and maps",
		}, oAssume...),
		Trusted: oTrusted,
		Note:    "for every path of hash.field / genStatement / genFunc: two runs on arguments related by EqTop (EqC) take the same branches, iterate alike and return the same number",
	})
	genLevel := func(r driver.ObResult) bool {
		switch r.Kind {
		case "nopanic", "G1", "G2", "G3", "G4", "typecheck", "hole-integrity":
			return true
		}
		return false
	}
	plugins := []string{"all", "any", "apply", "clone", "compare", "compose", "contains", "curry", "deepcopy", "do", "dup", "equal", "filter", "flip", "fmap", "gostring",
		"hash", "intersect", "join", "keys", "max", "mem", "min", "pipeline", "set", "sort", "takewhile", "toerror", "traverse", "tuple", "uncurry", "union", "unique"}
	var c09 []string
	for _, pl := range plugins {
		c09 = append(c09, pl+".gen.Add")
	}
	// Generate of the plugins whose Generate accepts every type list their Add accepts without further narrowing
	for _, pl := range []string{"all", "any", "compare", "contains", "equal", "filter", "fmap", "hash", "intersect", "join", "keys", "max", "mem", "min", "set", "sort", "takewhile", "traverse", "tuple", "union", "unique"} {
		c09 = append(c09, pl+".gen.Generate")
	}
	// the emitting functions whose contracts carry the domain their Add has checked
	c09 = append(c09, "apply.gen.Generate", "curry.gen.genFuncFor", "uncurry.gen.genFuncFor", "flip.gen.genFuncFor", "toerror.gen.genFuncFor", "compose.gen.genError",
		"equal.gen.field", "equal.gen.genStatement", "compare.gen.field", "compare.gen.genStatement", "hash.gen.field", "hash.gen.genStatement")
	textLevel := func(r driver.ObResult) bool {
		switch r.Kind {
		case "G3", "G4", "typecheck", "hole-integrity", "header", "capture":
			return true
		}
		return false
	}
	// the inner emitting functions (their contracts carry wider domains than the Generate dispatch explores: e.g. three channels for join)
	inner := []string{"clone.gen.genFuncFor", "deepcopy.gen.genFunc", "deepcopy.gen.genField", "dup.gen.Generate", "pipeline.gen.Generate",
		"fmap.gen.genChan", "join.gen.genChan", "join.gen.genChanVariant", "join.gen.genSliceOfChan",
		"fmap.gen.genSlice", "fmap.gen.genString", "fmap.gen.genError", "join.gen.genSlice", "join.gen.genString", "join.gen.genError",
		"equal.gen.genFunc", "equal.gen.genCurriedFunc", "compare.gen.genFunc", "compare.gen.genCurriedFunc", "hash.gen.genFunc",
		"tuple.gen.genFuncFor", "traverse.gen.genSlice", "mem.gen.genFunc"}
	c01 := append([]string{}, inner...)
	for _, f := range c09 {
		if !strings.HasSuffix(f, ".Add") {
			c01 = append(c01, f)
		}
	}
	c09 = append(c09, inner...)
	add(&Property{
		ID: "C01",
		Extra: func(ctx *Ctx) ([]driver.ObResult, error) {
			return flatPredConformance(ctx, "equal.canEqual", "deepcopy.canCopy", "contains.canEqual", "derive.IsComparable")
		},
		Groups: []Group{
			{Layer: "D", Pkg: "derive", Funcs: []string{"derive.typesMap.isGenerated", "derive.typesMap.ToGenerate", "derive.typesMap.Done", "derive.typesMap.Generating", "derive.pkg.Done", "derive.pkg.Generate",
				// the name table every lookup goes through: a call resolves to the function registered for exactly its (assignable) type list
				"derive.eq", "derive.typesMap.nameOf", "derive.typesMap.newName", "derive.typesMap.SetFuncName", "derive.typesMap.GetFuncName",
				// the import alias closure: the alias a plugin prints is bound to the path it asked for;
				// WriteTo: every registered import path reaches the import block exactly once
				"derive.printer.NewImport_lit1", "derive.printer.WriteTo",
				// the built-in contract of Printer.P / In / Out / HasContent that Layer G evaluates the plugins with, against the bodies
				"derive.printer.P", "derive.printer.In", "derive.printer.Out", "derive.printer.HasContent"}},
			// the driver between the call sites and the file: the name a call site gets is the one its plugin registered, and the file is written whenever there is content
			{Layer: "D", Pkg: "derive", Ghost: fsGhost, Funcs: []string{"derive.pkg.Add", "derive.newPackage", "derive.program.generatePackage", "derive.program.Generate", "derive.pkg.Print", "derive.pkg.Delete", "derive.pkg.Filename"}},
			{Layer: "O", NoVC: true, Funcs: c01, Only: textLevel},
		},
		Assumptions: []string{
			"PARTIAL. Decided: (1) the work list (Layer D): ToGenerate returns exactly the registered type lists that are not generated yet, in registration order; Done says none is left; pkg.Generate returns successfully only with every plugin's work list empty, so every helper requested through GetFuncName/SetFuncName was handed to its plugin's Generate (termination not shown); one name per type list and one type list per name (the name table: eq, nameOf, newName, SetFuncName, GetFuncName) is verified here as well as under C11; (2) text level (Layer G+O): on every non-error path of every generator function under contract (31 of 33 plugins; not gostring, do) the emitted text parses, keeps its operand holes intact, type-checks under a prelude synthesised from the path condition with exactly the imports whose alias closures were called (go/types reports unused and missing imports), has the signature its callers assume (header) and binds no generator identifier under a user-chosen name (capture)",
			"NOT decided: call discovery (derive/find.go: nested derive calls, calls in closures, package-level vars, _test files, the curried one-argument forms), loading (derive/load.go), qualified names of same-named imported packages (derive/qual.go), types that only become inferable after an earlier generation pass (the generatePackage loop is under the file-effect contracts of C07/C10 only), gostring and do",
			"A-cfg, A-param: a schematic program with opaque types stands for every instantiation; arities enumerated up to 3",
			"the open findings (emitted code that does not parse or type-check although goderive exits 0) are genuine violations of this property and are listed as known findings",
		},
		Trusted: oTrusted,
		Note:    "work-list contracts plus the text-level obligations of every plugin",
	})
	add(&Property{
		ID: "C09",
		Extra: func(ctx *Ctx) ([]driver.ObResult, error) {
			return flatPredConformance(ctx, "equal.canEqual", "deepcopy.canCopy", "contains.canEqual", "derive.IsComparable")
		},
		Groups: []Group{{Layer: "O", NoVC: true, Funcs: c09, Only: genLevel},
			// the driver's own run-time safety (find.go): newCall's "unreachable" panic is unreachable, no nil dereference, no index out of range
			{Layer: "D", Pkg: "derive", Ghost: fsGhost, Funcs: []string{"derive.finder.Visit", "derive.getInputTypes", "derive.newCall", "derive.newFileInfos",
				// the driver's dispatch and work loop: a plugin's refusal reaches the exit status (pkg.Add hands the call to the
				// first matching plugin only; pkg.Generate returns successfully only with every work list empty)
				"derive.pkg.Add", "derive.pkg.Done", "derive.pkg.Generate", "derive.newPackage", "derive.program.generatePackage", "derive.program.Generate",
				// Out's panic ("unindenting more than has been indented") is the one Layer G counts as a generator panic
				"derive.printer.P", "derive.printer.In", "derive.printer.Out", "derive.printer.HasContent"}},
			// a reported failure reaches the exit status (ghost history variable runFailed)
			{Layer: "D", Pkg: "main", Ghost: mainGhost, Funcs: []string{"main.main"}}},
		Assumptions: []string{
			"PARTIAL. Decided: on every path of every plugin's Add (33 plugins, argument lists of 0..3 types of every kind, incl. tuple types) and of the generator functions listed, the generator code does not panic (index, type assertion, nil, Tuple.At), an error created on the path reaches the function's result (G2), callee preconditions hold (G1), indentation is balanced (G3), and on every non-error path the emitted text parses (G4), keeps its operand holes intact and type-checks under the prelude synthesised from the path condition",
			"Decided at Layer D (driver): pkg.Add, pkg.Generate, generatePackage, program.Generate return an error whenever a step they called reported one (local history variable stepFailed), main.main returns normally only if neither Load nor Generate failed (history variable runFailed; log.Fatal does not return), generatePackage succeeds only if the package as last analysed has no derive call left whose argument types could not be determined (history variable callsLeft; the defect repaired by ec522ae), Printer.P/In/Out/HasContent implement the built-in contract Layer G evaluates the plugins with. Trusted for these: types.ExprString never returns the empty string, strings.Join's result begins with its first element, sort.Strings permutes, fmt.Fprintf and log.* write nothing the contracts talk about",
			"NOT decided here: termination / hangs; the content of the messages; derive/load.go (go/packages); of derive/find.go only newFileInfos, finder.Visit, newCall and getInputTypes are under contract (no panic, given that go/types stores no nil object in Info.Uses and the loader no nil file); newPackage's own error propagation (its file effects and registration order are under contract, C07/C10); Generate of gostring and do; for clone, deepcopy, dup, pipeline, curry, flip, uncurry, toerror, fmap, join, equal, compare, hash, tuple, traverse, mem the inner emitting functions are explored themselves with the domain their contracts state (e.g. three channels for join's variant form), not only through the Generate dispatch",
			"that Generate is only called with type lists its Add accepted or another plugin requested through GetFuncName is an assumption",
			"A-cfg, A-param; arities enumerated up to 3",
		},
		Trusted: oTrusted,
		Note:    "generator-level no-panic and error-propagation obligations plus the text-level obligations of the emitted code; the open findings shared with C01 (emitted code that does not parse or type-check although goderive exits 0) are listed as known findings",
	})
	add(&Property{
		ID: "C08",
		Groups: []Group{
			{Layer: "D", Pkg: "derive", Funcs: []string{"derive.typesMap.nameOf"}, DropAxioms: []string{"EqIsEquivalence"}},
			{Layer: "D", Pkg: "derive", Funcs: []string{"derive.pkg.Done", "derive.printer.WriteTo"}},
			{Layer: "D", Pkg: "derive", Ghost: fsGhost, Funcs: []string{"derive.union", "derive.sortPlugins",
				// nothing carries over from one package of an invocation to the next: generatePackage's frame names no field of the
				// program object, and the maps newPackage fills in place (union) are made by newPackage itself (argument ownership)
				"derive.newPackage", "derive.program.generatePackage", "derive.program.Generate"}},
		},
		Extra: func(ctx *Ctx) ([]driver.ObResult, error) {
			return nondetSources(ctx, map[string]bool{"derive.union": true, "derive.pkg.Done": true, "derive.printer.WriteTo": true, "derive.typesMap.nameOf": true}), nil
		},
		Assumptions: []string{
			"PARTIAL. Decided: (1) frame: the generator's own code (derive, plugin/*, main; strings of emitted code are not generator code) has no source of nondeterminism other than four range loops over Go maps, no go/select statements, no calls into math/rand, time.Now, os.Getenv and the like, and assigns no package-level variable (nothing carries over from one package of an invocation to the next) - a go/ast + go/types scan, rerun on every check; (2) each of the four loops is under a contract that makes its result independent of the iteration order: union (a set), pkg.Done (a conjunction), printer.WriteTo (paths holds every imported path once, sorted, and pathToQual is the inverse of imports, given one alias per path), typesMap.nameOf (at most one table entry matches); sortPlugins yields the unique order of distinct prefixes (C12)",
			"nameOf's clause needs assignability to be symmetric and transitive on the table, which it is not when named and unnamed types are mutually assignable: the axiom EqIsEquivalence (assumed under C11, whose quantifier excludes such types) is NOT assumed here; the obligation fails and is a known finding with a witness that reproduces on the real binary",
			"NOT decided: determinism of go/packages, go/types, go/format and the order of directory listings (newFileInfos); that plugins register one alias per import path (printer.NewImport) is an assumption; independence of how a package is addressed (relative path, pattern, import path) goes through the loader",
			"by A-det (Go semantics): code without these sources is a deterministic function of its inputs",
			"state in objects that outlive a package (the program object): generatePackage's frame names no field of it (frame obligations of newPackage / generatePackage / program.Generate), and the maps newPackage fills in place are made by newPackage itself (argument-ownership obligations: union declares mutates-arg); plugin objects (Plugin.New is called per package) are not analysed beyond the package-level-variable scan",
		},
		Trusted: []string{"sort.Strings / sort.Slice: rearrangement without inversions that keeps distinct elements distinct; the sorted arrangement of distinct strings is unique (L-sorted)", "gvc VC generator; SMT solvers; go/ast, go/types"},
		Note:    "frame scan over all generator packages plus order-independence contracts for the map-range loops",
	})
	add(&Property{
		ID:     "C05",
		Extra:  func(ctx *Ctx) ([]driver.ObResult, error) { return flatPredConformance(ctx, "deepcopy.canCopy") },
		Groups: []Group{{Layer: "O", Funcs: []string{"deepcopy.gen.genField", "deepcopy.gen.genFunc", "clone.gen.genFuncFor"}, Only: semantic}},
		Assumptions: append([]string{
			"'equal copy with nil-ness reproduced': the destination after the call is EqC/EqTop-equal to the source (SMT obligations): genField and genStatement print statements that assign their lvalue operand; a call of such a generator is rendered '<operand> = ĦS(...)' and the generator itself is checked on a wrapper returning the operand's final value; slices and maps filled in place are described by final(dst)",
			"'source unchanged': heap frame (the emitted function writes *dst / its lvalue operand and freshly allocated cells only) plus the ownership obligation for slices and maps",
			"'no sharing': the ownership obligation o-no-sharing (syntactic, flow-insensitive, conservative; NOT an SMT obligation): every reference stored into the destination is nil, freshly allocated (new, make, literal), a re-slicing of what the destination held itself, or produced by a generator function that is under the same obligation; plain assignment only where the generator established canCopy (no references inside)",
			"hypothesis of the property: destination and source share no memory (pointer arguments are different non-nil cells; operands passed by address are different cells); prior destination contents are arbitrary",
			"NOT proved (text level only: parse, type-check, ownership): unexported fields of imported structs (written through reflect/unsafe), maps whose key type is not plainly copyable (keys are freshly copied: structural equality of maps is keyed by identity), user DeepCopy methods (trusted to copy), arrays behind a pointer lvalue filled in a loop",
			"fresh allocations are distinct from every pointer in the state and in the heap; EqSpec of opaque components is heap-less (sound while only the destination and fresh cells are written)",
			"struct field counts enumerated up to 3; termination by the acyclic-values hypothesis",
		}, oAssume...),
		Trusted: oTrusted,
		Note:    "deepcopy.genField (every lvalue class and type kind), deepcopy.genFunc with genStatement inlined (pointer to struct field by field, slices, arrays, maps), clone.genFuncFor (allocates, delegates, returns)",
	})
	add(&Property{
		ID:     "C18",
		Extra:  func(ctx *Ctx) ([]driver.ObResult, error) { return flatPredConformance(ctx, "derive.IsComparable") },
		Groups: []Group{{Layer: "O", Funcs: []string{"mem.gen.genFunc"}, Only: semantic}},
		Assumptions: append([]string{
			"f is a deterministic function of the structure of its arguments: result(i, f, args) is a function, and (hash-bucket path) Equal arguments give equal results",
			"the closure's memo state is reasoned about through an invariant (o-closure-inv) established where the closure is created and preserved by every call; the per-call clauses are verified for an arbitrary later call (captured variables arbitrary values satisfying the invariant, old() = start of the call)",
			"history-level conclusion on paper (induction over the call sequence): no f call when an entry exists + an entry exists after every call + entries persist ==> f is invoked at most once per class of Equal argument tuples, and every call returns f's results",
			"derived Hash and Equal are used by their contracts (HashSpec respects EqC: C04; Equal is EqTop: C02)",
			"arities enumerated: 0..3 parameters x 0..3 results; parameter types opaque, forked by derive.IsComparable",
			"calls of the same closure do not overlap (sequential histories; concurrency is outside a sequential calculus)",
		}, oAssume...),
		Trusted: oTrusted,
		Note:    "for every path of mem.genFunc (no parameters; one ==-comparable parameter; several ==-comparable parameters keyed by a struct; hash buckets otherwise): memo invariant, results equal f's results, no call when the arguments were seen, exactly one call otherwise, entry stored afterwards, entries persist",
	})
	add(&Property{
		ID:     "C02",
		Extra:  func(ctx *Ctx) ([]driver.ObResult, error) { return flatPredConformance(ctx, "equal.canEqual") },
		Groups: []Group{{Layer: "O", Funcs: []string{"equal.gen.field", "equal.gen.genStatement", "equal.gen.genFunc", "equal.gen.genCurriedFunc"}, Only: semantic}},
		Assumptions: []string{
			"A-int (machine integers are mathematical integers; only a difference of two non-constant signed operands carries a no-overflow obligation); A-cfg (a hole replaced by a representative of its grammar class parses the same way); A-param (go/types is parametric in opaque named types)",
			"Go == on comparable, reference-free types is structural equality (Go spec); a flat struct containing a named component with its own Equal method is compared with == (accepted reading, DESIGN.md)",
			"struct field counts, and the number of unexported/imported fields, are enumerated up to 3 (bounded in arity; unbounded in values, nesting depth and component types)",
			"user Equal methods are total, pure, deterministic, take the type / a pointer to it / an interface, and treat nil receivers structurally",
			"reflect.Indirect(reflect.ValueOf(p)).FieldByName(n).UnsafeAddr() cast and dereferenced denotes p.n for non-nil p",
			"termination of the emitted recursion follows from the property's acyclic-values hypothesis (not mechanised)",
		},
		Trusted: []string{"bytes.Equal contract (length and bytes, not nil-ness)", "go/parser, go/types on the schematic programs", "gvc Layer G symbolic evaluator and VC generator; z3, z3 5.1.0, cvc5"},
		Note:    "every path of equal.field / genStatement / genFunc / genCurriedFunc: emitted text parses, holes intact, type-checks under the path's prelude, and returns exactly the structural-equality specification EqTop/EqC (one level unfolded, components by contract); curried form agrees with the binary form",
	})
	return t
}
