package geval

import (
	"fmt"
	"go/ast"
	"go/constant"
	"go/token"
	"go/types"
	"strconv"
	"strings"
)

// Env maps variables to cells.
type Env struct {
	vars   map[types.Object]*Value
	parent *Env
}

func newEnv(parent *Env) *Env { return &Env{vars: map[types.Object]*Value{}, parent: parent} }

func (e *Env) lookup(o types.Object) *Value {
	for s := e; s != nil; s = s.parent {
		if c, ok := s.vars[o]; ok {
			return c
		}
	}
	return nil
}

func (e *Env) define(o types.Object, v Value) {
	c := new(Value)
	*c = v
	e.vars[o] = c
}

// Unsupported is raised (as panic) when the code leaves the analysable subset.
type Unsupported struct {
	Pos token.Pos
	Msg string
}

// Abort ends the current run without a verdict (infeasible choice).
type abortRun struct{ why string }

type ctl int

const (
	cNone ctl = iota
	cReturn
	cBreak
	cContinue
)

type frame struct {
	fn   *FuncVal
	info *types.Info
	ret  []Value
	name string
}

func (it *Interp) unsupported(pos token.Pos, format string, a ...interface{}) {
	panic(Unsupported{pos, fmt.Sprintf(format, a...)})
}

func (it *Interp) info() *types.Info { return it.frames[len(it.frames)-1].info }

// callFunc runs a declared function or closure.
func (it *Interp) callFunc(f *FuncVal, args []Value, pos token.Pos) []Value {
	if f.Native != nil {
		vs, err := f.Native(it, args)
		if err != nil {
			it.unsupported(pos, "%s: %v", f.Name, err)
		}
		return vs
	}
	if len(it.frames) > 60 {
		it.unsupported(pos, "call depth exceeded (recursion without a contract?) at %s", f.Name)
	}
	var ftype *ast.FuncType
	var body *ast.BlockStmt
	var recvField *ast.FieldList
	if f.Decl != nil {
		ftype, body, recvField = f.Decl.Type, f.Decl.Body, f.Decl.Recv
	} else {
		ftype, body = f.Lit.Type, f.Lit.Body
	}
	env := newEnv(f.Env)
	info := f.Info
	if recvField != nil && len(recvField.List) > 0 && len(recvField.List[0].Names) > 0 {
		if o := info.Defs[recvField.List[0].Names[0]]; o != nil {
			env.define(o, f.Recv)
		}
	}
	i := 0
	nparams := 0
	for _, fl := range ftype.Params.List {
		n := len(fl.Names)
		if n == 0 {
			n = 1
		}
		nparams += n
	}
	for _, fl := range ftype.Params.List {
		_, variadic := fl.Type.(*ast.Ellipsis)
		if len(fl.Names) == 0 {
			i++
			continue
		}
		for _, n := range fl.Names {
			var v Value
			if variadic {
				// args beyond are packed unless already a slice passed with ...
				if i < len(args) {
					if sv, ok := args[i].(*SliceVal); ok && len(args) == nparams && it.lastEllipsis {
						v = sv
					} else {
						v = &SliceVal{Elems: append([]Value(nil), args[i:]...)}
					}
				} else {
					v = &SliceVal{IsNil: true}
				}
			} else {
				if i >= len(args) {
					it.unsupported(pos, "too few arguments calling %s", f.Name)
				}
				v = args[i]
			}
			if o := info.Defs[n]; o != nil {
				env.define(o, v)
			}
			i++
		}
	}
	it.lastEllipsis = false
	fr := &frame{fn: f, info: info, name: f.Name}
	// named results
	var resObjs []types.Object
	if ftype.Results != nil {
		for _, fl := range ftype.Results.List {
			for _, n := range fl.Names {
				if o := info.Defs[n]; o != nil {
					env.define(o, it.zeroValue(o.Type()))
					resObjs = append(resObjs, o)
				}
			}
		}
	}
	it.frames = append(it.frames, fr)
	defer func() { it.frames = it.frames[:len(it.frames)-1] }()
	c := it.execBlock(env, body.List)
	if c == cReturn {
		if fr.ret == nil && len(resObjs) > 0 {
			for _, o := range resObjs {
				fr.ret = append(fr.ret, *env.lookup(o))
			}
		}
		return fr.ret
	}
	if len(resObjs) > 0 {
		var out []Value
		for _, o := range resObjs {
			out = append(out, *env.lookup(o))
		}
		return out
	}
	return nil
}

func (it *Interp) zeroValue(t types.Type) Value {
	switch u := t.Underlying().(type) {
	case *types.Basic:
		switch {
		case u.Info()&types.IsBoolean != 0:
			return false
		case u.Info()&types.IsInteger != 0:
			return 0
		case u.Info()&types.IsString != 0:
			return Lit("")
		}
	case *types.Slice:
		return &SliceVal{IsNil: true}
	case *types.Map:
		return &MapVal{IsNil: true, M: map[string]Value{}}
	case *types.Struct:
		sv := &StructVal{Type: t, Fields: map[string]Value{}}
		for i := 0; i < u.NumFields(); i++ {
			sv.Fields[u.Field(i).Name()] = it.zeroValue(u.Field(i).Type())
		}
		return sv
	}
	return NilVal{}
}

func (it *Interp) execBlock(env *Env, stmts []ast.Stmt) ctl {
	for _, s := range stmts {
		if c := it.execStmt(env, s); c != cNone {
			return c
		}
	}
	return cNone
}

func (it *Interp) execStmt(env *Env, s ast.Stmt) ctl {
	switch s := s.(type) {
	case *ast.BlockStmt:
		return it.execBlock(newEnv(env), s.List)
	case *ast.EmptyStmt:
		return cNone
	case *ast.ExprStmt:
		it.evalMulti(env, s.X)
		return cNone
	case *ast.DeclStmt:
		gd := s.Decl.(*ast.GenDecl)
		if gd.Tok != token.VAR {
			return cNone
		}
		for _, sp := range gd.Specs {
			vs := sp.(*ast.ValueSpec)
			if len(vs.Values) == 0 {
				for _, n := range vs.Names {
					if o := it.info().Defs[n]; o != nil {
						env.define(o, it.zeroValue(o.Type()))
					}
				}
				continue
			}
			var vals []Value
			if len(vs.Values) == 1 && len(vs.Names) > 1 {
				vals = it.evalMulti(env, vs.Values[0])
			} else {
				for _, x := range vs.Values {
					vals = append(vals, it.eval(env, x))
				}
			}
			for i, n := range vs.Names {
				if o := it.info().Defs[n]; o != nil {
					env.define(o, vals[i])
				}
			}
		}
		return cNone
	case *ast.AssignStmt:
		it.execAssign(env, s)
		return cNone
	case *ast.IncDecStmt:
		v := it.eval(env, s.X)
		n, ok := v.(int)
		if !ok {
			it.unsupported(s.Pos(), "++/-- on non-concrete integer")
		}
		if s.Tok == token.INC {
			n++
		} else {
			n--
		}
		it.assign(env, s.X, n, false)
		return cNone
	case *ast.ReturnStmt:
		fr := it.frames[len(it.frames)-1]
		if len(s.Results) == 0 {
			fr.ret = nil
			return cReturn
		}
		var vals []Value
		if len(s.Results) == 1 {
			vals = it.evalMulti(env, s.Results[0])
		} else {
			for _, r := range s.Results {
				vals = append(vals, it.eval(env, r))
			}
		}
		fr.ret = vals
		return cReturn
	case *ast.IfStmt:
		env2 := newEnv(env)
		if s.Init != nil {
			it.execStmt(env2, s.Init)
		}
		if it.truth(it.eval(env2, s.Cond), s.Cond.Pos()) {
			return it.execBlock(newEnv(env2), s.Body.List)
		}
		if s.Else != nil {
			return it.execStmt(env2, s.Else)
		}
		return cNone
	case *ast.ForStmt:
		env2 := newEnv(env)
		if s.Init != nil {
			it.execStmt(env2, s.Init)
		}
		for iter := 0; ; iter++ {
			if iter > 64 {
				it.unsupported(s.Pos(), "loop bound exceeded (64 iterations)")
			}
			if s.Cond != nil && !it.truth(it.eval(env2, s.Cond), s.Cond.Pos()) {
				break
			}
			c := it.execBlock(newEnv(env2), s.Body.List)
			if c == cReturn {
				return c
			}
			if c == cBreak {
				break
			}
			if s.Post != nil {
				it.execStmt(env2, s.Post)
			}
		}
		return cNone
	case *ast.RangeStmt:
		return it.execRange(env, s)
	case *ast.SwitchStmt:
		return it.execSwitch(env, s)
	case *ast.TypeSwitchStmt:
		return it.execTypeSwitch(env, s)
	case *ast.BranchStmt:
		if s.Label != nil {
			it.unsupported(s.Pos(), "labelled branch")
		}
		switch s.Tok {
		case token.BREAK:
			return cBreak
		case token.CONTINUE:
			return cContinue
		}
		it.unsupported(s.Pos(), "branch statement %s", s.Tok)
	}
	it.unsupported(s.Pos(), "statement %T is outside the subset", s)
	return cNone
}

func (it *Interp) execRange(env *Env, s *ast.RangeStmt) ctl {
	coll := it.eval(env, s.X)
	bind := func(e2 *Env, x ast.Expr, v Value) {
		if x == nil {
			return
		}
		id, ok := x.(*ast.Ident)
		if !ok || id.Name == "_" {
			return
		}
		if s.Tok == token.DEFINE {
			if o := it.info().Defs[id]; o != nil {
				e2.define(o, v)
			}
		} else {
			it.assign(e2, x, v, false)
		}
	}
	switch c := coll.(type) {
	case int:
		// range over an integer (Go 1.22): 0 .. c-1
		for i := 0; i < c; i++ {
			e2 := newEnv(env)
			bind(e2, s.Key, i)
			r := it.execBlock(e2, s.Body.List)
			if r == cReturn {
				return r
			}
			if r == cBreak {
				break
			}
		}
		return cNone
	case *SliceVal:
		for i := 0; i < len(c.Elems); i++ {
			e2 := newEnv(env)
			bind(e2, s.Key, i)
			bind(e2, s.Value, c.Elems[i])
			r := it.execBlock(e2, s.Body.List)
			if r == cReturn {
				return r
			}
			if r == cBreak {
				break
			}
		}
		return cNone
	case *MapVal:
		// iteration order: the engine walks keys in insertion order; generator
		// code under contract must not depend on it (checked at Layer D, C08)
		for _, k := range c.Keys {
			e2 := newEnv(env)
			bind(e2, s.Key, k)
			bind(e2, s.Value, c.M[keyString(k)])
			r := it.execBlock(e2, s.Body.List)
			if r == cReturn {
				return r
			}
			if r == cBreak {
				break
			}
		}
		return cNone
	case NilVal:
		return cNone
	}
	it.unsupported(s.Pos(), "range over %T", coll)
	return cNone
}

func keyString(v Value) string {
	switch k := v.(type) {
	case *Tmpl:
		return "s:" + k.String()
	case int:
		return "i:" + strconv.Itoa(k)
	case bool:
		return fmt.Sprint("b:", k)
	case *SymType:
		return fmt.Sprintf("t:%d", k.ID)
	}
	return fmt.Sprintf("%T:%v", v, v)
}

func (it *Interp) execSwitch(env *Env, s *ast.SwitchStmt) ctl {
	env2 := newEnv(env)
	if s.Init != nil {
		it.execStmt(env2, s.Init)
	}
	var tag Value
	if s.Tag != nil {
		tag = it.eval(env2, s.Tag)
	}
	var def *ast.CaseClause
	run := func(cc *ast.CaseClause) ctl {
		c := it.execBlock(newEnv(env2), cc.Body)
		if c == cBreak {
			return cNone
		}
		return c
	}
	for _, c := range s.Body.List {
		cc := c.(*ast.CaseClause)
		if cc.List == nil {
			def = cc
			continue
		}
		for _, x := range cc.List {
			v := it.eval(env2, x)
			var m bool
			if s.Tag != nil {
				m = it.truth(it.equalValues(tag, v, x.Pos()), x.Pos())
			} else {
				m = it.truth(v, x.Pos())
			}
			if m {
				return run(cc)
			}
		}
	}
	if def != nil {
		return run(def)
	}
	return cNone
}

func (it *Interp) execTypeSwitch(env *Env, s *ast.TypeSwitchStmt) ctl {
	env2 := newEnv(env)
	if s.Init != nil {
		it.execStmt(env2, s.Init)
	}
	var x ast.Expr
	switch a := s.Assign.(type) {
	case *ast.AssignStmt:
		x = a.Rhs[0].(*ast.TypeAssertExpr).X
	case *ast.ExprStmt:
		x = a.X.(*ast.TypeAssertExpr).X
	}
	v := it.eval(env2, x)
	var def *ast.CaseClause
	run := func(cc *ast.CaseClause) ctl {
		e3 := newEnv(env2)
		if o := it.info().Implicits[cc]; o != nil {
			e3.define(o, v)
		}
		c := it.execBlock(e3, cc.Body)
		if c == cBreak {
			return cNone
		}
		return c
	}
	for _, c := range s.Body.List {
		cc := c.(*ast.CaseClause)
		if cc.List == nil {
			def = cc
			continue
		}
		for _, tx := range cc.List {
			tt := it.info().TypeOf(tx)
			if it.dynTypeIs(v, tt, tx.Pos()) {
				return run(cc)
			}
		}
	}
	if def != nil {
		return run(def)
	}
	return cNone
}

func (it *Interp) execAssign(env *Env, s *ast.AssignStmt) {
	if s.Tok != token.ASSIGN && s.Tok != token.DEFINE {
		cur := it.eval(env, s.Lhs[0])
		rhs := it.eval(env, s.Rhs[0])
		var op token.Token
		switch s.Tok {
		case token.ADD_ASSIGN:
			op = token.ADD
		case token.SUB_ASSIGN:
			op = token.SUB
		default:
			it.unsupported(s.Pos(), "assignment operator %s", s.Tok)
		}
		it.assign(env, s.Lhs[0], it.binop(op, cur, rhs, s.Pos()), false)
		return
	}
	var vals []Value
	if len(s.Rhs) == 1 && len(s.Lhs) > 1 {
		switch r := ast.Unparen(s.Rhs[0]).(type) {
		case *ast.TypeAssertExpr:
			v := it.eval(env, r.X)
			tt := it.info().TypeOf(r.Type)
			ok := it.dynTypeIs(v, tt, r.Pos())
			if ok {
				vals = []Value{v, true}
			} else {
				vals = []Value{NilVal{}, false}
			}
		case *ast.IndexExpr:
			m := it.eval(env, r.X)
			k := it.eval(env, r.Index)
			mv, isMap := m.(*MapVal)
			if !isMap {
				it.unsupported(s.Pos(), "comma-ok index on %T", m)
			}
			v, ok := mv.M[keyString(k)]
			if !ok {
				v = it.zeroValue(it.info().TypeOf(r).(*types.Tuple).At(0).Type())
			}
			vals = []Value{v, ok}
		default:
			vals = it.evalMulti(env, s.Rhs[0])
		}
		if len(vals) != len(s.Lhs) {
			it.unsupported(s.Pos(), "assignment count mismatch %d = %d", len(s.Lhs), len(vals))
		}
	} else {
		for _, r := range s.Rhs {
			vals = append(vals, it.eval(env, r))
		}
	}
	for i, l := range s.Lhs {
		it.assign(env, l, vals[i], s.Tok == token.DEFINE)
	}
}

func (it *Interp) assign(env *Env, lhs ast.Expr, v Value, define bool) {
	switch l := lhs.(type) {
	case *ast.ParenExpr:
		it.assign(env, l.X, v, define)
	case *ast.Ident:
		if l.Name == "_" {
			return
		}
		if define {
			if o := it.info().Defs[l]; o != nil {
				env.define(o, v)
				return
			}
		}
		o := it.info().ObjectOf(l)
		c := env.lookup(o)
		if c == nil {
			it.unsupported(l.Pos(), "assignment to unknown variable %s", l.Name)
		}
		*c = v
	case *ast.IndexExpr:
		base := it.eval(env, l.X)
		idx := it.eval(env, l.Index)
		switch b := base.(type) {
		case *SliceVal:
			i, ok := idx.(int)
			if !ok {
				it.unsupported(l.Pos(), "symbolic index")
			}
			if i < 0 || i >= len(b.Elems) {
				it.event("panic", l.Pos(), fmt.Sprintf("index out of range [%d] with length %d", i, len(b.Elems)))
				panic(abortRun{"generator panic"})
			}
			b.Elems[i] = v
		case *MapVal:
			if b.IsNil {
				it.event("panic", l.Pos(), "assignment to entry in nil map")
				panic(abortRun{"generator panic"})
			}
			ks := keyString(idx)
			if _, ok := b.M[ks]; !ok {
				b.Keys = append(b.Keys, idx)
			}
			b.M[ks] = v
		default:
			it.unsupported(l.Pos(), "indexed assignment on %T", base)
		}
	case *ast.SelectorExpr:
		base := it.eval(env, l.X)
		sv := it.structOf(base, l.Pos())
		sv.Fields[l.Sel.Name] = v
	case *ast.StarExpr:
		p := it.eval(env, l.X)
		pv, ok := p.(*PtrVal)
		if !ok || pv.Cell == nil {
			it.unsupported(l.Pos(), "store through %T", p)
		}
		*pv.Cell = v
	default:
		it.unsupported(lhs.Pos(), "assignment target %T", lhs)
	}
}

func (it *Interp) structOf(v Value, pos token.Pos) *StructVal {
	switch b := v.(type) {
	case *StructVal:
		return b
	case *PtrVal:
		if b.Struct != nil {
			return b.Struct
		}
		if b.Cell != nil {
			if sv, ok := (*b.Cell).(*StructVal); ok {
				return sv
			}
		}
	}
	it.unsupported(pos, "field access on %T", v)
	return nil
}

// ---------------------------------------------------------------- expressions

func (it *Interp) eval(env *Env, x ast.Expr) Value {
	vs := it.evalMulti(env, x)
	if len(vs) != 1 {
		it.unsupported(x.Pos(), "expression yields %d values", len(vs))
	}
	return vs[0]
}

func (it *Interp) constValue(tv types.TypeAndValue) (Value, bool) {
	if tv.Value == nil {
		return nil, false
	}
	switch tv.Value.Kind() {
	case constant.Bool:
		return constant.BoolVal(tv.Value), true
	case constant.Int:
		n, ok := constant.Int64Val(tv.Value)
		if ok {
			return int(n), true
		}
	case constant.String:
		return Lit(constant.StringVal(tv.Value)), true
	}
	return nil, false
}

func (it *Interp) evalMulti(env *Env, x ast.Expr) []Value {
	if tv, ok := it.info().Types[x]; ok && tv.Value != nil {
		if v, ok := it.constValue(tv); ok {
			return []Value{v}
		}
	}
	switch x := x.(type) {
	case *ast.ParenExpr:
		return it.evalMulti(env, x.X)
	case *ast.Ident:
		return []Value{it.evalIdent(env, x)}
	case *ast.BinaryExpr:
		if x.Op == token.LAND {
			if !it.truth(it.eval(env, x.X), x.X.Pos()) {
				return []Value{false}
			}
			return []Value{it.truth(it.eval(env, x.Y), x.Y.Pos())}
		}
		if x.Op == token.LOR {
			if it.truth(it.eval(env, x.X), x.X.Pos()) {
				return []Value{true}
			}
			return []Value{it.truth(it.eval(env, x.Y), x.Y.Pos())}
		}
		return []Value{it.binop(x.Op, it.eval(env, x.X), it.eval(env, x.Y), x.Pos())}
	case *ast.UnaryExpr:
		switch x.Op {
		case token.NOT:
			return []Value{!it.truth(it.eval(env, x.X), x.Pos())}
		case token.SUB:
			if n, ok := it.eval(env, x.X).(int); ok {
				return []Value{-n}
			}
		case token.AND:
			return []Value{it.addrOf(env, x.X)}
		}
		it.unsupported(x.Pos(), "unary %s", x.Op)
	case *ast.StarExpr:
		p := it.eval(env, x.X)
		switch pv := p.(type) {
		case *PtrVal:
			if pv.Struct != nil {
				return []Value{pv.Struct}
			}
			return []Value{*pv.Cell}
		case *OptType:
			if pv.T == nil {
				it.event("panic", x.Pos(), "nil pointer dereference")
				panic(abortRun{"generator panic"})
			}
			return []Value{pv.T}
		case NilVal:
			it.event("panic", x.Pos(), "nil pointer dereference")
			panic(abortRun{"generator panic"})
		}
		it.unsupported(x.Pos(), "dereference of %T", p)
	case *ast.SelectorExpr:
		return []Value{it.evalSelector(env, x)}
	case *ast.IndexExpr:
		base := it.eval(env, x.X)
		idx := it.eval(env, x.Index)
		return []Value{it.index(base, idx, x.Pos())}
	case *ast.SliceExpr:
		base := it.eval(env, x.X)
		return []Value{it.sliceExpr(env, base, x)}
	case *ast.CallExpr:
		return it.evalCall(env, x)
	case *ast.CompositeLit:
		return []Value{it.evalComposite(env, x)}
	case *ast.TypeAssertExpr:
		v := it.eval(env, x.X)
		tt := it.info().TypeOf(x.Type)
		if !it.dynTypeIs(v, tt, x.Pos()) {
			it.event("panic", x.Pos(), "failed type assertion")
			panic(abortRun{"generator panic"})
		}
		return []Value{v}
	case *ast.FuncLit:
		return []Value{&FuncVal{Lit: x, Env: env, Info: it.info(), Name: "func literal"}}
	case *ast.BasicLit:
		it.unsupported(x.Pos(), "literal %s", x.Value)
	}
	it.unsupported(x.Pos(), "expression %T is outside the subset", x)
	return nil
}

func (it *Interp) addrOf(env *Env, x ast.Expr) Value {
	switch x := ast.Unparen(x).(type) {
	case *ast.CompositeLit:
		v := it.evalComposite(env, x)
		if sv, ok := v.(*StructVal); ok {
			return &PtrVal{Struct: sv}
		}
		c := new(Value)
		*c = v
		return &PtrVal{Cell: c}
	case *ast.Ident:
		o := it.info().ObjectOf(x)
		if c := env.lookup(o); c != nil {
			if sv, ok := (*c).(*StructVal); ok {
				return &PtrVal{Struct: sv}
			}
			return &PtrVal{Cell: c}
		}
	}
	it.unsupported(x.Pos(), "address of %T", x)
	return nil
}

func (it *Interp) evalIdent(env *Env, id *ast.Ident) Value {
	obj := it.info().ObjectOf(id)
	switch o := obj.(type) {
	case *types.Nil:
		return NilVal{}
	case *types.Var:
		if c := env.lookup(o); c != nil {
			return *c
		}
		if v, ok := it.globalVar(o); ok {
			return v
		}
		it.unsupported(id.Pos(), "variable %s has no value", id.Name)
	case *types.Const:
		if v, ok := it.constValue(types.TypeAndValue{Type: o.Type(), Value: o.Val()}); ok {
			return v
		}
	case *types.Func:
		return it.funcValue(o, nil, id.Pos())
	case *types.Builtin:
		return &FuncVal{Name: "builtin " + o.Name()}
	}
	it.unsupported(id.Pos(), "identifier %s (%T)", id.Name, obj)
	return nil
}

func (it *Interp) truth(v Value, pos token.Pos) bool {
	switch b := v.(type) {
	case bool:
		return b
	case *SymBool:
		return it.decideBool(b, pos)
	}
	it.unsupported(pos, "condition of type %T", v)
	return false
}

func (it *Interp) binop(op token.Token, a, b Value, pos token.Pos) Value {
	switch op {
	case token.EQL:
		return it.equalValues(a, b, pos)
	case token.NEQ:
		return !it.truth(it.equalValues(a, b, pos), pos)
	}
	if x, ok := a.(int); ok {
		y, ok := b.(int)
		if !ok {
			it.unsupported(pos, "integer operator with %T", b)
		}
		switch op {
		case token.ADD:
			return x + y
		case token.SUB:
			return x - y
		case token.MUL:
			return x * y
		case token.QUO:
			if y == 0 {
				it.event("panic", pos, "division by zero")
				panic(abortRun{"generator panic"})
			}
			return x / y
		case token.REM:
			return x % y
		case token.AND:
			return x & y
		case token.OR:
			return x | y
		case token.XOR:
			return x ^ y
		case token.AND_NOT:
			return x &^ y
		case token.LSS:
			return x < y
		case token.LEQ:
			return x <= y
		case token.GTR:
			return x > y
		case token.GEQ:
			return x >= y
		}
	}
	if x, ok := a.(*Tmpl); ok {
		y, ok := b.(*Tmpl)
		if ok && op == token.ADD {
			return Concat(x, y)
		}
	}
	it.unsupported(pos, "operator %s on %T, %T", op, a, b)
	return nil
}

func (it *Interp) equalValues(a, b Value, pos token.Pos) Value {
	switch x := a.(type) {
	case NilVal:
		return it.isNil(b, pos)
	case int:
		if y, ok := b.(int); ok {
			return x == y
		}
		if y, ok := b.(*SymBasicKind); ok {
			return it.basicKindIs(y, types.BasicKind(x), pos)
		}
	case bool:
		if y, ok := b.(bool); ok {
			return x == y
		}
	case *Tmpl:
		if y, ok := b.(*Tmpl); ok {
			return it.tmplEqual(x, y, pos)
		}
	case *SymBasicKind:
		if y, ok := b.(int); ok {
			return it.basicKindIs(x, types.BasicKind(y), pos)
		}
	case *SymType:
		if y, ok := b.(*SymType); ok {
			return x == y // interface identity (pointer comparison of types): only exact same object
		}
	case *ErrVal:
		if _, ok := b.(NilVal); ok {
			return false
		}
	case *PtrVal:
		if _, ok := b.(NilVal); ok {
			return false
		}
		if y, ok := b.(*PtrVal); ok {
			return x == y || (x.Struct != nil && x.Struct == y.Struct) || (x.Cell != nil && x.Cell == y.Cell)
		}
	}
	if _, ok := b.(NilVal); ok {
		return it.isNil(a, pos)
	}
	it.unsupported(pos, "== on %T, %T", a, b)
	return nil
}

func (it *Interp) isNil(v Value, pos token.Pos) Value {
	switch x := v.(type) {
	case NilVal:
		return true
	case *ErrVal, *StructVal, *FuncVal, *SymType, *SymVar, *SymObj, *TypesMapObj, *PrinterObj, *DepObj:
		return false
	case *PtrVal:
		return false
	case *SliceVal:
		return x.IsNil
	case *MapVal:
		return x.IsNil
	case *SymTuple:
		return x.Nil
	case *SymPkg:
		return it.decideTri(&x.IsNil, "pkg-is-nil("+x.Desc+")", pos)
	case *OptType:
		return x.T == nil
	}
	it.unsupported(pos, "nil comparison of %T", v)
	return nil
}

func (it *Interp) tmplEqual(x, y *Tmpl, pos token.Pos) Value {
	if x.IsConcrete() && y.IsConcrete() {
		return x.Concrete() == y.Concrete()
	}
	if x.String() == y.String() {
		return true
	}
	// a hole compared with a literal: decided by class where possible, else a choice
	desc := "streq(" + x.String() + "," + y.String() + ")"
	return it.choose2(desc, pos)
}

func (it *Interp) index(base, idx Value, pos token.Pos) Value {
	switch b := base.(type) {
	case *SliceVal:
		i, ok := idx.(int)
		if !ok {
			it.unsupported(pos, "symbolic index")
		}
		if i < 0 || i >= len(b.Elems) {
			it.event("panic", pos, fmt.Sprintf("index out of range [%d] with length %d", i, len(b.Elems)))
			panic(abortRun{"generator panic"})
		}
		return b.Elems[i]
	case *MapVal:
		if v, ok := b.M[keyString(idx)]; ok {
			return v
		}
		return NilVal{}
	case *TypArray:
		// types.Typ[kind]
		k, ok := idx.(int)
		if !ok {
			it.unsupported(pos, "types.Typ index")
		}
		return it.basicType(types.BasicKind(k))
	case *Tmpl:
		it.unsupported(pos, "indexing a string value")
	}
	it.unsupported(pos, "index of %T", base)
	return nil
}

func (it *Interp) sliceExpr(env *Env, base Value, x *ast.SliceExpr) Value {
	lo, hi := 0, -1
	if x.Low != nil {
		lo = it.eval(env, x.Low).(int)
	}
	if x.High != nil {
		hi = it.eval(env, x.High).(int)
	}
	switch b := base.(type) {
	case *SliceVal:
		if hi < 0 {
			hi = len(b.Elems)
		}
		if lo < 0 || hi > len(b.Elems) || lo > hi {
			it.event("panic", x.Pos(), fmt.Sprintf("slice bounds out of range [%d:%d] with length %d", lo, hi, len(b.Elems)))
			panic(abortRun{"generator panic"})
		}
		return &SliceVal{Elems: b.Elems[lo:hi]}
	case *Tmpl:
		if b.IsConcrete() {
			s := b.Concrete()
			if hi < 0 {
				hi = len(s)
			}
			if lo < 0 || hi > len(s) || lo > hi {
				it.event("panic", x.Pos(), "string slice out of range")
				panic(abortRun{"generator panic"})
			}
			return Lit(s[lo:hi])
		}
		return it.tmplSlice(b, lo, hi, x.Pos())
	}
	it.unsupported(x.Pos(), "slice of %T", base)
	return nil
}

func (it *Interp) evalComposite(env *Env, x *ast.CompositeLit) Value {
	ty := it.info().TypeOf(x)
	switch u := ty.Underlying().(type) {
	case *types.Struct:
		sv := it.zeroValue(ty).(*StructVal)
		for i, el := range x.Elts {
			if kv, ok := el.(*ast.KeyValueExpr); ok {
				sv.Fields[kv.Key.(*ast.Ident).Name] = it.eval(env, kv.Value)
			} else {
				sv.Fields[u.Field(i).Name()] = it.eval(env, el)
			}
		}
		return sv
	case *types.Slice:
		r := &SliceVal{}
		for _, el := range x.Elts {
			r.Elems = append(r.Elems, it.eval(env, el))
		}
		return r
	case *types.Map:
		r := &MapVal{M: map[string]Value{}}
		for _, el := range x.Elts {
			kv := el.(*ast.KeyValueExpr)
			k := it.eval(env, kv.Key)
			r.Keys = append(r.Keys, k)
			r.M[keyString(k)] = it.eval(env, kv.Value)
		}
		return r
	}
	it.unsupported(x.Pos(), "composite literal of %s", ty)
	return nil
}

func (it *Interp) evalSelector(env *Env, x *ast.SelectorExpr) Value {
	if id, ok := x.X.(*ast.Ident); ok {
		if pn, isPkg := it.info().ObjectOf(id).(*types.PkgName); isPkg {
			obj := it.info().ObjectOf(x.Sel)
			switch o := obj.(type) {
			case *types.Const:
				if v, ok := it.constValue(types.TypeAndValue{Type: o.Type(), Value: o.Val()}); ok {
					return v
				}
			case *types.Func:
				return it.funcValue(o, nil, x.Pos())
			case *types.Var:
				if pn.Imported().Path() == "go/types" && o.Name() == "Typ" {
					return &TypArray{}
				}
				if v, ok := it.globalVar(o); ok {
					return v
				}
			}
			it.unsupported(x.Pos(), "qualified identifier %s.%s", id.Name, x.Sel.Name)
		}
	}
	sel := it.info().Selections[x]
	base := it.eval(env, x.X)
	if sel != nil && sel.Kind() == types.FieldVal {
		cur := base
		// walk the embedding path
		t := sel.Recv()
		for _, idx := range sel.Index() {
			if p, ok := t.Underlying().(*types.Pointer); ok {
				t = p.Elem()
			}
			st, ok := t.Underlying().(*types.Struct)
			if !ok {
				it.unsupported(x.Pos(), "field path through %s", t)
			}
			f := st.Field(idx)
			cur = it.fieldOf(cur, f.Name(), x.Pos())
			t = f.Type()
		}
		return cur
	}
	// method value
	if sel != nil && (sel.Kind() == types.MethodVal) {
		fn := sel.Obj().(*types.Func)
		recv := base
		// promoted through embedded fields
		t := sel.Recv()
		idxs := sel.Index()
		switch base.(type) {
		case *StructVal, *PtrVal:
		default:
			idxs = idxs[len(idxs)-1:] // engine-provided objects have no embedded fields
		}
		for _, idx := range idxs[:len(idxs)-1] {
			if p, ok := t.Underlying().(*types.Pointer); ok {
				t = p.Elem()
			}
			st := t.Underlying().(*types.Struct)
			f := st.Field(idx)
			recv = it.fieldOf(recv, f.Name(), x.Pos())
			t = f.Type()
		}
		return it.methodValue(recv, fn, x.Pos())
	}
	it.unsupported(x.Pos(), "selector %s", x.Sel.Name)
	return nil
}

func (it *Interp) fieldOf(v Value, name string, pos token.Pos) Value {
	switch b := v.(type) {
	case *StructVal:
		if f, ok := b.Fields[name]; ok {
			return f
		}
		it.unsupported(pos, "struct value has no field %s", name)
	case *PtrVal:
		return it.fieldOf(it.structOf(b, pos), name, pos)
	case NilVal:
		it.event("panic", pos, "nil pointer dereference (field "+name+")")
		panic(abortRun{"generator panic"})
	}
	it.unsupported(pos, "field %s of %T", name, v)
	return nil
}

func (it *Interp) evalCall(env *Env, call *ast.CallExpr) []Value {
	// conversions
	if tv, ok := it.info().Types[call.Fun]; ok && tv.IsType() {
		v := it.eval(env, call.Args[0])
		return []Value{it.convert(v, tv.Type, call.Pos())}
	}
	if id, ok := ast.Unparen(call.Fun).(*ast.Ident); ok {
		if b, isB := it.info().ObjectOf(id).(*types.Builtin); isB {
			return it.evalBuiltin(env, call, b.Name())
		}
	}
	fv := it.eval(env, call.Fun)
	var args []Value
	for _, a := range call.Args {
		args = append(args, it.evalMulti(env, a)...)
	}
	f, ok := fv.(*FuncVal)
	if !ok {
		if _, isNil := fv.(NilVal); isNil {
			it.event("panic", call.Pos(), "call of nil function")
			panic(abortRun{"generator panic"})
		}
		it.unsupported(call.Pos(), "call of %T", fv)
	}
	it.lastEllipsis = call.Ellipsis.IsValid()
	return it.callFunc(f, args, call.Pos())
}

func (it *Interp) convert(v Value, to types.Type, pos token.Pos) Value {
	switch x := v.(type) {
	case int:
		return x
	case *Tmpl:
		return x
	case NilVal:
		return x
	case *SymBasicKind:
		return x
	}
	if _, ok := to.Underlying().(*types.Interface); ok {
		return v
	}
	it.unsupported(pos, "conversion of %T to %s", v, to)
	return nil
}

func (it *Interp) evalBuiltin(env *Env, call *ast.CallExpr, name string) []Value {
	switch name {
	case "len":
		v := it.eval(env, call.Args[0])
		switch x := v.(type) {
		case *SliceVal:
			return []Value{len(x.Elems)}
		case *MapVal:
			return []Value{len(x.Keys)}
		case *Tmpl:
			if x.IsConcrete() {
				return []Value{len(x.Concrete())}
			}
			return []Value{it.tmplLen(x, call.Pos())}
		case NilVal:
			return []Value{0}
		}
		it.unsupported(call.Pos(), "len of %T", v)
	case "append":
		s := it.eval(env, call.Args[0])
		var base []Value
		switch x := s.(type) {
		case *SliceVal:
			base = x.Elems
		case NilVal:
		default:
			it.unsupported(call.Pos(), "append to %T", s)
		}
		out := append([]Value(nil), base...)
		if call.Ellipsis.IsValid() {
			t := it.eval(env, call.Args[1])
			if ts, ok := t.(*SliceVal); ok {
				out = append(out, ts.Elems...)
			} else if _, isNil := t.(NilVal); !isNil {
				it.unsupported(call.Pos(), "append of %T...", t)
			}
		} else {
			for _, a := range call.Args[1:] {
				out = append(out, it.eval(env, a))
			}
		}
		return []Value{&SliceVal{Elems: out}}
	case "make":
		ty := it.info().TypeOf(call)
		switch u := ty.Underlying().(type) {
		case *types.Slice:
			n, ok := it.eval(env, call.Args[1]).(int)
			if !ok {
				it.unsupported(call.Pos(), "make with symbolic length")
			}
			if n < 0 {
				it.event("panic", call.Pos(), "makeslice: len out of range")
				panic(abortRun{"generator panic"})
			}
			r := &SliceVal{Elems: make([]Value, n)}
			for i := range r.Elems {
				r.Elems[i] = it.zeroValue(u.Elem())
			}
			return []Value{r}
		case *types.Map:
			return []Value{&MapVal{M: map[string]Value{}}}
		}
		it.unsupported(call.Pos(), "make of %s", ty)
	case "panic":
		v := it.eval(env, call.Args[0])
		it.event("panic", call.Pos(), "explicit panic: "+fmt.Sprint(v))
		panic(abortRun{"generator panic"})
	case "new":
		ty := it.info().TypeOf(call).Underlying().(*types.Pointer).Elem()
		z := it.zeroValue(ty)
		if sv, ok := z.(*StructVal); ok {
			return []Value{&PtrVal{Struct: sv}}
		}
		c := new(Value)
		*c = z
		return []Value{&PtrVal{Cell: c}}
	}
	it.unsupported(call.Pos(), "builtin %s", name)
	return nil
}

func fmtPos(fset *token.FileSet, pos token.Pos) string {
	if !pos.IsValid() {
		return ""
	}
	p := fset.Position(pos)
	return strings.TrimPrefix(p.Filename, "/repo/") + ":" + strconv.Itoa(p.Line)
}
