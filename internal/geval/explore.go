package geval

import (
	"fmt"
	"go/ast"
	"go/token"
	"go/types"
	"sort"
	"strings"

	"gvc/internal/contract"
	"gvc/internal/driver"
)

// Line is one call of Printer.P.
type Line struct {
	Text   *Tmpl
	Indent int
	Pos    token.Pos
}

type Event struct {
	Kind string // panic, swallowed, out-underflow, ...
	Pos  string
	Msg  string
}

// Request records a helper requested through GetFuncName.
type Request struct {
	Plugin string
	Typs   []*SymType
	Hole   *Hole
	Pos    string
}

// Path is one complete symbolic execution of the entry function.
type Path struct {
	Decisions   []string
	Out         []Line
	Ret         []Value
	Events      []Event
	Facts       map[*SymType]*TFact
	Preds       map[string]Tri
	Requests    []Request
	Generating  [][]*SymType
	Errors      []*ErrVal // error values created on this path
	Indent      int       // final indentation
	Unsupported *Unsupported
	Aborted     string
	Holes       []*Hole
	Args        []Value
	Imports     []*Hole
	SetNames    int
	flats       []flatRec
	opts        map[string]*OptType
	// Conformance: set by FlatPredConformance: "" or how the body's answer differs from the abstraction
	Conformance string
}

// Opts: the optional-type results of abstracted method lookups on this path.
func (p *Path) Opts() map[string]*OptType { return p.opts }

func (p *Path) Name() string { return strings.Join(p.Decisions, ",") }

type declInfo struct {
	decl *ast.FuncDecl
	info *types.Info
	pkg  *types.Package
	key  string
}

type Interp struct {
	L            *driver.Loaded
	Fset         *token.FileSet
	decls        map[*types.Func]*declInfo
	byKey        map[string]*declInfo
	frames       []*frame
	lastEllipsis bool
	run          *Run
	// Abstract: contract keys whose calls are replaced by their abstraction
	// (from the contract attribute "abstract"), except the entry call itself.
	Abstract  map[string]*contract.Func
	entryKey  string
	entryDone bool
	MaxArity  int // enumerated bound for field counts / tuple lengths
	// NameVariants: also explore function types without parameter names
	NameVariants bool
	globals      map[*types.Var]*Value
	Plugin       string
	postBody     func(it *Interp, p *Path)
}

type Run struct {
	choices  []int
	alts     []int
	pos      int
	descs    []string
	facts    map[*SymType]*TFact
	preds    map[string]Tri
	out      []Line
	indent   int
	events   []Event
	nextID   int
	holes    []*Hole
	reqs     []Request
	gens     [][]*SymType
	errs     []*ErrVal
	basics   map[types.BasicKind]*SymType
	imports  []*Hole
	setNames int
	opts     map[string]*OptType
	flats    []flatRec
	classes  map[string]string
}

func NewInterp(l *driver.Loaded) *Interp {
	it := &Interp{L: l, Fset: l.Fset, decls: map[*types.Func]*declInfo{}, byKey: map[string]*declInfo{}, Abstract: map[string]*contract.Func{}, MaxArity: 3, globals: map[*types.Var]*Value{}}
	for _, p := range l.Pkgs {
		for _, f := range p.Syntax {
			for _, d := range f.Decls {
				fd, ok := d.(*ast.FuncDecl)
				if !ok || fd.Body == nil {
					continue
				}
				obj, _ := p.TypesInfo.Defs[fd.Name].(*types.Func)
				if obj == nil {
					continue
				}
				di := &declInfo{decl: fd, info: p.TypesInfo, pkg: p.Types, key: contract.KeyOf(p.Types.Name(), fd)}
				it.decls[obj] = di
				it.byKey[di.key] = di
			}
		}
	}
	for k, c := range l.Contracts.Funcs {
		if len(c.Attrs["abstract"]) > 0 {
			it.Abstract[k] = c
		}
	}
	return it
}

func (it *Interp) newHole(h *Hole) *Hole {
	it.run.nextID++
	h.ID = it.run.nextID
	it.run.holes = append(it.run.holes, h)
	return h
}

func (it *Interp) newType(desc string) *SymType {
	it.run.nextID++
	t := &SymType{ID: it.run.nextID, Desc: desc}
	it.run.facts[t] = &TFact{NFields: -1, ChanDir: -1}
	return t
}

func (it *Interp) fact(t *SymType) *TFact {
	r := t.R()
	f := it.run.facts[r]
	if f == nil {
		f = &TFact{NFields: -1, ChanDir: -1}
		it.run.facts[r] = f
	}
	return f
}

func (it *Interp) event(kind string, pos token.Pos, msg string) {
	it.run.events = append(it.run.events, Event{Kind: kind, Pos: fmtPos(it.Fset, pos), Msg: msg})
}

// choose returns a value in [0,n) from the decision vector.
func (it *Interp) choose(n int, desc string, labels ...string) int {
	r := it.run
	c := 0
	if r.pos < len(r.choices) {
		c = r.choices[r.pos]
		r.alts[r.pos] = n
	} else {
		r.choices = append(r.choices, 0)
		r.alts = append(r.alts, n)
	}
	r.pos++
	lab := fmt.Sprint(c)
	if c < len(labels) {
		lab = labels[c]
	}
	r.descs = append(r.descs, desc+"="+lab)
	return c
}

func (it *Interp) choose2(desc string, pos token.Pos) bool {
	return it.choose(2, desc, "yes", "no") == 0
}

func (it *Interp) decideTri(t *Tri, desc string, pos token.Pos) bool {
	if *t == Unknown {
		if it.choose2(desc, pos) {
			*t = Yes
		} else {
			*t = No
		}
	}
	return *t == Yes
}

// pred decides an uninterpreted predicate, memoised per path.
func (it *Interp) pred(key string) bool {
	if v, ok := it.run.preds[key]; ok {
		return v == Yes
	}
	if it.choose(2, key, "yes", "no") == 0 {
		it.run.preds[key] = Yes
		return true
	}
	it.run.preds[key] = No
	return false
}

// SymBool is a boolean the path has not decided yet.
type SymBool struct {
	Key string
}

func (it *Interp) decideBool(b *SymBool, pos token.Pos) bool { return it.pred(b.Key) }

// Explore runs the entry function on the given arguments over all decision vectors.
// mkArgs builds the arguments (fresh symbolic values) for each run.
func (it *Interp) Explore(entryKey string, mkArgs func(it *Interp) (recv Value, args []Value), limit int) ([]*Path, error) {
	di := it.byKey[entryKey]
	if di == nil {
		return nil, fmt.Errorf("no function %s", entryKey)
	}
	var paths []*Path
	var choices []int
	var alts []int
	for n := 0; ; n++ {
		if n >= limit {
			return paths, fmt.Errorf("%s: more than %d paths", entryKey, limit)
		}
		p := it.runOnce(di, entryKey, mkArgs, choices, alts)
		paths = append(paths, p)
		choices, alts = it.run.choices, it.run.alts
		// next vector
		i := len(choices) - 1
		for i >= 0 && choices[i]+1 >= alts[i] {
			i--
		}
		if i < 0 {
			break
		}
		choices = append([]int(nil), choices[:i+1]...)
		choices[i]++
		alts = append([]int(nil), alts[:i+1]...)
	}
	return paths, nil
}

func (it *Interp) runOnce(di *declInfo, entryKey string, mkArgs func(it *Interp) (Value, []Value), choices, alts []int) (p *Path) {
	it.run = &Run{choices: append([]int(nil), choices...), alts: append([]int(nil), alts...), facts: map[*SymType]*TFact{}, preds: map[string]Tri{}, basics: map[types.BasicKind]*SymType{}, opts: map[string]*OptType{}, classes: map[string]string{}}
	it.frames = nil
	it.entryKey, it.entryDone = entryKey, false
	it.globals = map[*types.Var]*Value{}
	p = &Path{}
	defer func() {
		r := it.run
		if rec := recover(); rec != nil {
			switch x := rec.(type) {
			case Unsupported:
				p.Unsupported = &x
			case abortRun:
				p.Aborted = x.why
			default:
				panic(rec)
			}
		}
		// truncate the vector to what this run consumed
		r.choices, r.alts = r.choices[:r.pos], r.alts[:r.pos]
		p.Decisions = r.descs
		p.Out, p.Events, p.Facts, p.Preds, p.Requests, p.Generating, p.Errors, p.Indent, p.Holes = r.out, r.events, r.facts, r.preds, r.reqs, r.gens, r.errs, r.indent, r.holes
		p.Imports, p.SetNames, p.flats, p.opts = r.imports, r.setNames, r.flats, r.opts
	}()
	recv, args := mkArgs(it)
	p.Args = args
	it.frames = []*frame{{info: di.info, name: "<entry>"}}
	f := &FuncVal{Decl: di.decl, Info: di.info, Recv: recv, Name: entryKey}
	it.entryDone = true
	p.Ret = it.callFunc(f, args, di.decl.Pos())
	if it.postBody != nil {
		it.postBody(it, p)
	}
	return p
}

// globalVar evaluates a package-level variable's initialiser (once per run).
func (it *Interp) globalVar(o *types.Var) (Value, bool) {
	if c, ok := it.globals[o]; ok {
		return *c, true
	}
	if o.Pkg() == nil {
		return nil, false
	}
	for _, p := range it.L.Pkgs {
		if p.Types != o.Pkg() {
			continue
		}
		for _, f := range p.Syntax {
			for _, d := range f.Decls {
				gd, ok := d.(*ast.GenDecl)
				if !ok || gd.Tok != token.VAR {
					continue
				}
				for _, sp := range gd.Specs {
					vs := sp.(*ast.ValueSpec)
					for i, n := range vs.Names {
						if p.TypesInfo.Defs[n] == o && i < len(vs.Values) {
							it.frames = append(it.frames, &frame{info: p.TypesInfo, name: "<global>"})
							v := it.eval(newEnv(nil), vs.Values[i])
							it.frames = it.frames[:len(it.frames)-1]
							c := new(Value)
							*c = v
							it.globals[o] = c
							return v, true
						}
					}
				}
			}
		}
	}
	return nil, false
}

// Describe gives a stable printable form of a value (for predicate keys).
func Describe(v Value) string {
	switch x := v.(type) {
	case *SymType:
		return x.String()
	case *Tmpl:
		return x.String()
	case *StructVal:
		var parts []string
		for _, k := range sortedKeys(x.Fields) {
			switch f := x.Fields[k].(type) {
			case *Tmpl, *SymType, int, bool:
				parts = append(parts, k+":"+Describe(f))
			}
		}
		return "{" + strings.Join(parts, " ") + "}"
	case *PtrVal:
		if x.Struct != nil {
			return "&" + Describe(x.Struct)
		}
		return "&" + Describe(*x.Cell)
	case *SymVar:
		return "var(" + x.Desc + ")"
	case *SliceVal:
		var parts []string
		for _, e := range x.Elems {
			parts = append(parts, Describe(e))
		}
		return "[" + strings.Join(parts, ",") + "]"
	case *OptType:
		if x.T == nil {
			return "none"
		}
		return "some(" + x.T.String() + ")"
	}
	return fmt.Sprint(v)
}

func sortedTypes(m map[*SymType]*TFact) []*SymType {
	var ts []*SymType
	for t := range m {
		ts = append(ts, t)
	}
	sort.Slice(ts, func(i, j int) bool { return ts[i].ID < ts[j].ID })
	return ts
}
