// Package geval is Layer G: a symbolic evaluator for goderive's generator
// functions (plugin/*/*.go and the derive helpers they call). Types are symbolic
// (only what the path condition says is known about them), strings are
// templates (literal text and holes), everything else is concrete. All paths
// are enumerated by replay with a decision vector.
package geval

import (
	"fmt"
	"go/ast"
	"go/types"
	"sort"
	"strings"
)

type Value interface{}

// ---------------------------------------------------------------- templates

// Hole is a piece of a string the generator did not build itself.
type Hole struct {
	ID    int
	Kind  string // param, funcname, typestr, fieldname, import, callee, itoa, other
	Class string // Ident, Primary, Star, Amp, Cmp, Paren, Call, TypeText, IntLit, Any
	Desc  string
	Type  *SymType // static type of the expression, when it is one
	// callee holes: the contract function, its argument templates and types
	Callee string
	Args   []Value
	// funcname holes: requested helper
	Plugin string
	Typs   []*SymType
	// fieldname: owner struct and index
	Owner *SymType
	Index int
	Names []string // literal identifiers that the text may bind (capture analysis)
}

type Part struct {
	Lit  string
	Hole *Hole
}

// Tmpl is a string value: concatenation of literals and holes.
type Tmpl struct{ Parts []Part }

func Lit(s string) *Tmpl {
	if s == "" {
		return &Tmpl{}
	}
	return &Tmpl{Parts: []Part{{Lit: s}}}
}

func HoleT(h *Hole) *Tmpl { return &Tmpl{Parts: []Part{{Hole: h}}} }

func Concat(ts ...*Tmpl) *Tmpl {
	r := &Tmpl{}
	for _, t := range ts {
		for _, p := range t.Parts {
			if p.Hole == nil && len(r.Parts) > 0 && r.Parts[len(r.Parts)-1].Hole == nil {
				r.Parts[len(r.Parts)-1].Lit += p.Lit
			} else if p.Hole != nil || p.Lit != "" {
				r.Parts = append(r.Parts, p)
			}
		}
	}
	return r
}

func (t *Tmpl) IsConcrete() bool {
	for _, p := range t.Parts {
		if p.Hole != nil {
			return false
		}
	}
	return true
}

func (t *Tmpl) Concrete() string {
	var b strings.Builder
	for _, p := range t.Parts {
		b.WriteString(p.Lit)
	}
	return b.String()
}

func (t *Tmpl) String() string {
	var b strings.Builder
	for _, p := range t.Parts {
		if p.Hole != nil {
			fmt.Fprintf(&b, "‹%s#%d›", p.Hole.Desc, p.Hole.ID)
		} else {
			b.WriteString(p.Lit)
		}
	}
	return b.String()
}

func (t *Tmpl) Empty() bool { return len(t.Parts) == 0 }

// first/last character knowledge of hole classes ("" = unknown).
func classFirst(c string) string {
	switch c {
	case "Ident", "Primary", "Call", "TypeIdent":
		return "ident" // a letter or underscore: never one of * & ( ! [
	case "Star":
		return "*"
	case "Amp":
		return "&"
	case "Paren":
		return "("
	case "IntLit":
		return "digit"
	case "Cmp":
		return "ident"
	}
	return ""
}

func classLast(c string) string {
	switch c {
	case "Ident", "TypeIdent":
		return "ident"
	case "Call", "Paren":
		return ")"
	case "IntLit":
		return "digit"
	case "Star", "Amp", "Cmp":
		return "expr-end" // an identifier character, ) or ]
	}
	return ""
}

// ---------------------------------------------------------------- symbolic go/types values

type Kind int

const (
	KUnknown Kind = iota
	KBasic
	KPointer
	KSlice
	KArray
	KMap
	KStruct
	KChan
	KSignature
	KInterface
	KTuple
)

var kindNames = map[Kind]string{KBasic: "Basic", KPointer: "Pointer", KSlice: "Slice", KArray: "Array", KMap: "Map", KStruct: "Struct",
	KChan: "Chan", KSignature: "Signature", KInterface: "Interface", KTuple: "Tuple"}

func (k Kind) String() string {
	if s, ok := kindNames[k]; ok {
		return s
	}
	return "?"
}

var AllKinds = []Kind{KBasic, KPointer, KSlice, KArray, KMap, KStruct, KChan, KSignature, KInterface}

func kindOfTypeName(n string) Kind {
	for k, s := range kindNames {
		if s == n {
			return k
		}
	}
	return KUnknown
}

type Tri int

const (
	Unknown Tri = iota
	Yes
	No
)

// SymType is a symbolic go/types.Type. A view is typ.Underlying().
type SymType struct {
	ID   int
	Desc string
	Root *SymType // non-nil for views: the type whose Underlying() this is
}

func (t *SymType) IsView() bool { return t.Root != nil }
func (t *SymType) R() *SymType {
	if t.Root != nil {
		return t.Root
	}
	return t
}
func (t *SymType) String() string {
	if t.Root != nil {
		return "U(" + t.Root.Desc + ")"
	}
	return t.Desc
}

// TFact is what a path knows about a (root) symbolic type.
type TFact struct {
	Named    Tri
	Kind     Kind
	NotKinds map[Kind]bool
	Basic    map[types.BasicKind]bool // allowed basic kinds (nil = all)
	Elem     *SymType
	KeyT     *SymType
	NFields  int // -1 unknown
	Fields   []*SymVar
	Params   *SymTuple
	Results  *SymTuple
	Variadic Tri
	ChanDir  int // -1 unknown
	Obj      *SymObj
	Methods  map[string]Value
	ArrayLen *Hole
	TypeText string // a type given by its text (custom types.Type implementations)
}

// SymVar is a *types.Var (struct field, parameter, result).
type SymVar struct {
	NameT    *Tmpl
	Type     *SymType
	Desc     string
	Concrete bool // name is a concrete string (renamed parameter)
	Embedded Tri
}

type SymTuple struct {
	Vars []*SymVar
	Desc string
	Nil  bool
}

// SymObj is a *types.TypeName.
type SymObj struct {
	NameT *Tmpl
	Pkg   *SymPkg
	Of    *SymType
}

type SymPkg struct {
	Desc  string
	IsNil Tri
}

// ---------------------------------------------------------------- ordinary values

type NilVal struct{}

type ErrVal struct {
	Msg  *Tmpl
	From string // where it was created
}

type StructVal struct {
	Type   types.Type
	Fields map[string]Value
}

type PtrVal struct {
	Struct *StructVal // pointer to struct
	Cell   *Value     // pointer to other value
}

type SliceVal struct {
	Elems []Value
	IsNil bool
}

type MapVal struct {
	Keys  []Value
	M     map[string]Value // keyed by concrete string rendering
	IsNil bool
}

// FuncVal is a callable: declared function, method value, closure or native.
type FuncVal struct {
	Decl   *ast.FuncDecl
	Lit    *ast.FuncLit
	Env    *Env
	Recv   Value
	Native func(it *Interp, args []Value) ([]Value, error)
	Name   string
	Info   *types.Info
}

// TupleVal carries multiple results.
type TupleVal []Value

// Abstract objects provided by the engine.
type TypesMapObj struct{ Plugin string }
type PrinterObj struct{}
type DepObj struct{ Plugin string }
type ImportObj struct {
	Name, Path string
}

func sortedKeys(m map[string]Value) []string {
	ks := make([]string, 0, len(m))
	for k := range m {
		ks = append(ks, k)
	}
	sort.Strings(ks)
	return ks
}
