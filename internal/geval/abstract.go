package geval

import (
	"fmt"
	"go/types"
	"strings"

	"gvc/internal/contract"
)

// abstractFunc replaces a call of a contract-bearing function by its
// abstraction (attribute "abstract" of the contract):
//
//	pred                      uninterpreted predicate of the arguments
//	option-type               nil or a fresh symbolic type (method lookups)
//	expr classes=A,B,...      (string, error): an expression hole of one of the classes, or an error
//	stmt returns|effect|falls (error): one emitted statement hole, or an error
//	text class=C              string hole
func (it *Interp) abstractFunc(di *declInfo, con *contract.Func, recv Value) *FuncVal {
	spec := con.Attr("abstract")
	words := strings.Fields(spec)
	mode := ""
	if len(words) > 0 {
		mode = words[0]
	}
	return nat(di.key, func(it *Interp, a []Value) ([]Value, error) {
		var ds []string
		for _, x := range a {
			ds = append(ds, Describe(x))
		}
		if recv != nil {
			if _, isGen := recv.(*PtrVal); !isGen || mode == "pred" {
				if sv, ok := recv.(*PtrVal); ok && sv.Struct != nil {
					if _, has := sv.Struct.Fields["printer"]; !has {
						ds = append([]string{Describe(recv)}, ds...)
					}
				}
			}
		}
		key := di.key + "(" + strings.Join(ds, ",") + ")"
		if why := it.checkGRequires(con, a); why != "" {
			it.event("G1", 0, "call of "+di.key+" violates its precondition: "+why)
		}
		switch mode {
		case "pred":
			if len(words) > 1 && words[1] == "flat" {
				if t, ok := a[0].(*SymType); ok {
					return []Value{it.flatPred(di.key, t)}, nil
				}
			}
			return []Value{it.pred(key)}, nil
		case "option-type":
			if o, ok := it.run.opts[key]; ok {
				return []Value{o}, nil
			}
			o := &OptType{}
			if it.choose(2, key, "nil", "some") == 1 {
				o.T = it.newType("Param(" + key + ")")
			}
			it.run.opts[key] = o
			return []Value{o}, nil
		case "expr":
			classes := []string{"Call"}
			for _, w := range words[1:] {
				if strings.HasPrefix(w, "classes=") {
					classes = strings.Split(strings.TrimPrefix(w, "classes="), ",")
				}
			}
			if it.choose(2, key, "ok", "err") == 1 {
				ev := &ErrVal{Msg: Lit("unsupported type (callee " + di.key + ")"), From: di.key}
				it.run.errs = append(it.run.errs, ev)
				return []Value{Lit(""), ev}, nil
			}
			cl := classes[0]
			if len(classes) > 1 {
				// one class per callee and path: mixtures of classes across several
				// results of the same callee are covered by context-freeness (A-cfg)
				ck := "class(" + di.key + ")"
				if c, ok := it.run.classes[ck]; ok {
					cl = c
				} else {
					cl = classes[it.choose(len(classes), ck, classes...)]
					it.run.classes[ck] = cl
				}
			}
			h := it.newHole(&Hole{Kind: "callee", Class: cl, Desc: shortKey(di.key), Callee: di.key, Args: a})
			return []Value{HoleT(h), NilVal{}}, nil
		case "stmt":
			if it.choose(2, key, "ok", "err") == 1 {
				ev := &ErrVal{Msg: Lit("unsupported type (callee " + di.key + ")"), From: di.key}
				it.run.errs = append(it.run.errs, ev)
				return []Value{ev}, nil
			}
			sub := "effect"
			if len(words) > 1 {
				sub = words[1]
			}
			h := it.newHole(&Hole{Kind: "stmt", Class: "Stmt:" + sub, Desc: shortKey(di.key), Callee: di.key, Args: a})
			it.run.out = append(it.run.out, Line{Text: HoleT(h), Indent: it.run.indent})
			return []Value{NilVal{}}, nil
		case "text":
			cl := "Any"
			for _, w := range words[1:] {
				if strings.HasPrefix(w, "class=") {
					cl = strings.TrimPrefix(w, "class=")
				}
			}
			h := it.newHole(&Hole{Kind: "callee", Class: cl, Desc: shortKey(di.key), Callee: di.key, Args: a})
			return []Value{HoleT(h)}, nil
		}
		return nil, fmt.Errorf("contract of %s: unknown abstraction %q", di.key, spec)
	})
}

func shortKey(k string) string {
	if i := strings.LastIndex(k, "."); i >= 0 {
		return k[i+1:]
	}
	return k
}

// ArgSpec says how to build a symbolic argument.
//
// From the contract attributes of the entry function:
//
//	param <name>: classes=Ident,Star          string parameter: an operand hole of one of the classes
//	param <name>: len=1,2                     []types.Type parameter: that many fresh symbolic types
//	param <name>: kind=Map                    a type of that (unnamed) kind
//	param <name>: same=<other>                the same symbolic type as another parameter/element
type ArgSpec map[string]string

func parseArgSpecs(con *contract.Func) map[string]ArgSpec {
	out := map[string]ArgSpec{}
	if con == nil {
		return out
	}
	for _, p := range con.Attrs["param"] {
		i := strings.Index(p, ":")
		if i < 0 {
			continue
		}
		name := strings.TrimSpace(p[:i])
		as := ArgSpec{}
		for _, w := range strings.Fields(p[i+1:]) {
			if j := strings.Index(w, "="); j > 0 {
				as[w[:j]] = w[j+1:]
			} else {
				as[w] = "true"
			}
		}
		out[name] = as
	}
	return out
}

// NewGenerator builds the plugin's generator value by running its New function.
func (it *Interp) NewGenerator(pluginPkg string) (Value, error) {
	di := it.byKey[pluginPkg+".New"]
	if di == nil {
		return nil, fmt.Errorf("plugin %s has no New function", pluginPkg)
	}
	deps := &MapVal{M: map[string]Value{}}
	for _, p := range it.pluginNames() {
		k := Lit(p)
		deps.Keys = append(deps.Keys, k)
		deps.M[keyString(k)] = &DepObj{Plugin: p}
	}
	it.frames = append(it.frames, &frame{info: di.info, name: "<new>"})
	defer func() { it.frames = it.frames[:len(it.frames)-1] }()
	f := &FuncVal{Decl: di.decl, Info: di.info, Name: di.key}
	vs := it.callFunc(f, []Value{&TypesMapObj{Plugin: pluginPkg}, &PrinterObj{}, deps}, di.decl.Pos())
	if len(vs) != 1 {
		return nil, fmt.Errorf("New of %s returned %d values", pluginPkg, len(vs))
	}
	return vs[0], nil
}

func (it *Interp) pluginNames() []string {
	var ns []string
	for path := range it.L.Pkgs {
		if i := strings.Index(path, "/plugin/"); i >= 0 {
			ns = append(ns, path[i+len("/plugin/"):])
		}
	}
	sortStrings(ns)
	return ns
}

func sortStrings(s []string) {
	for i := 1; i < len(s); i++ {
		for j := i; j > 0 && s[j] < s[j-1]; j-- {
			s[j], s[j-1] = s[j-1], s[j]
		}
	}
}

// MakeArgs builds receiver and arguments of an entry function from its
// signature and the "param" attributes of its contract.
func (it *Interp) MakeArgs(entryKey string) func(it *Interp) (Value, []Value) {
	di := it.byKey[entryKey]
	con := it.L.Contracts.Funcs[entryKey]
	specs := parseArgSpecs(con)
	return func(it *Interp) (Value, []Value) {
		obj := di.info.Defs[di.decl.Name].(*types.Func)
		sig := obj.Type().(*types.Signature)
		var recv Value
		if sig.Recv() != nil {
			g, err := it.NewGenerator(di.pkg.Name())
			if err != nil {
				it.unsupported(di.decl.Pos(), "%v", err)
			}
			recv = g
		}
		var args []Value
		byName := map[string]Value{}
		for i := 0; i < sig.Params().Len(); i++ {
			p := sig.Params().At(i)
			as := specs[p.Name()]
			v := it.makeArg(p.Name(), p.Type(), as, byName)
			byName[p.Name()] = v
			args = append(args, v)
		}
		// an operand of class Amp (&x) has a pointer type: requires operand(s, T)
		for name, as := range specs {
			tn, ok := as["type"]
			if !ok {
				continue
			}
			tm, _ := byName[name].(*Tmpl)
			ty, _ := byName[tn].(*SymType)
			if tm == nil || ty == nil || len(tm.Parts) != 1 || tm.Parts[0].Hole == nil {
				continue
			}
			tm.Parts[0].Hole.Type = ty
			if tm.Parts[0].Hole.Class == "Amp" {
				f := it.fact(ty)
				f.Named, f.Kind = No, KPointer
			}
		}
		return recv, args
	}
}

func (it *Interp) makeArg(name string, t types.Type, as ArgSpec, byName map[string]Value) Value {
	if same, ok := as["same"]; ok {
		return byName[same]
	}
	ts := types.TypeString(t, nil)
	switch {
	case ts == "go/types.Type":
		return it.newType(name)
	case strings.HasPrefix(ts, "*go/types."):
		k := kindOfTypeName(strings.TrimPrefix(ts, "*go/types."))
		ty := it.newType(name)
		f := it.fact(ty)
		if k != KUnknown {
			f.Named, f.Kind = No, k
		} else if strings.HasSuffix(ts, "Named") {
			f.Named = Yes
		}
		// elem-comparable: the registering Generate has checked types.Comparable(elem)
		if as["elem-comparable"] == "true" && (k == KSlice || k == KArray) {
			if f.Elem == nil {
				f.Elem = it.newType("Elem(" + name + ")")
			}
			it.run.preds["types.IsComparable("+f.Elem.Desc+")"] = Yes
		}
		// nresults=N result0kind=K: shapes the registering Add has checked
		if nr, ok := as["nresults"]; ok && k == KSignature {
			n := 0
			opts := strings.Split(nr, ",")
			oi := 0
			if len(opts) > 1 {
				oi = it.choose(len(opts), "len(Results("+name+"))", opts...)
			}
			fmt.Sscan(opts[oi], &n)
			tup := &SymTuple{Desc: "Results(" + name + ")"}
			for i := 0; i < n; i++ {
				vt := it.newType(fmt.Sprintf("Results%d(%s)", i, name))
				if rk, ok := as[fmt.Sprintf("result%dkind", i)]; ok {
					rf := it.fact(vt)
					rf.Named, rf.Kind = No, kindOfTypeName(rk)
				}
				if i == n-1 && as["lastbool"] == "true" {
					vt = it.basicType(types.Bool)
				}
				tup.Vars = append(tup.Vars, &SymVar{NameT: Lit(""), Type: vt, Desc: fmt.Sprintf("Results%d(%s)", i, name)})
			}
			f.Results = tup
		}
		if np, ok := as["nparams"]; ok && k == KSignature {
			as["minparams"] = np
			as["maxparams"] = np
		}
		// minparams=N: the registering Add has checked the arity
		if mp, ok := as["minparams"]; ok && k == KSignature {
			min := 0
			fmt.Sscan(mp, &min)
			save := it.MaxArity
			if mx, ok := as["maxparams"]; ok {
				fmt.Sscan(mx, &save)
			}
			if min > save {
				min = save
			}
			n := min + it.choose(save-min+1, "nparams-"+name+"-minus-"+mp)
			tup := &SymTuple{Desc: "Params(" + name + ")"}
			named := true
			if it.NameVariants && n > 0 {
				named = it.choose(2, "names("+name+")", "present", "absent") == 0
			}
			for i := 0; i < n; i++ {
				vt := it.newType(fmt.Sprintf("Params%d(%s)", i, name))
				h := it.newHole(&Hole{Kind: "paramname", Class: "Ident", Desc: fmt.Sprintf("p%d", i), Owner: ty, Index: i})
				nm := HoleT(h)
				if !named {
					nm = Lit("")
				}
				tup.Vars = append(tup.Vars, &SymVar{NameT: nm, Type: vt, Desc: fmt.Sprintf("Params%d(%s)", i, name)})
			}
			f.Params = tup
			it.run.descs = append(it.run.descs, fmt.Sprintf("len(Params(%s))=%d", name, n))
		}
		return ty
	case ts == "[]go/types.Type":
		lens := []string{"1"}
		if l, ok := as["len"]; ok {
			lens = strings.Split(l, ",")
		}
		li := 0
		if len(lens) > 1 {
			li = it.choose(len(lens), "len("+name+")", lens...)
		}
		n := 0
		fmt.Sscan(lens[li], &n)
		sv := &SliceVal{}
		for i := 0; i < n; i++ {
			if as["identical"] == "true" && i > 0 {
				sv.Elems = append(sv.Elems, sv.Elems[0])
				continue
			}
			sv.Elems = append(sv.Elems, it.newType(fmt.Sprintf("%s[%d]", name, i)))
		}
		// shapes the caller (Generate's dispatch) has established: kind0=Slice ekind0=Basic ebasic0=string
		for i, e := range sv.Elems {
			t := e.(*SymType)
			if k, ok := as[fmt.Sprintf("kind%d", i)]; ok {
				f := it.fact(t)
				f.Named, f.Kind = No, kindOfTypeName(k)
			}
			if k, ok := as[fmt.Sprintf("ekind%d", i)]; ok {
				el := it.elemOf(t, 0)
				f := it.fact(el)
				f.Named, f.Kind = No, kindOfTypeName(k)
				if b, ok := as[fmt.Sprintf("ebasic%d", i)]; ok {
					for _, bt := range types.Typ {
						if bt.Name() == b {
							f.Basic = map[types.BasicKind]bool{bt.Kind(): true}
						}
					}
				}
			}
		}
		return sv
	case ts == "string":
		classes := []string{"Ident"}
		if c, ok := as["classes"]; ok {
			classes = strings.Split(c, ",")
		}
		cl := classes[0]
		if len(classes) > 1 {
			cl = classes[it.choose(len(classes), "class("+name+")", classes...)]
		}
		if sc, ok := as["sameclass"]; ok {
			if t, ok := byName[sc].(*Tmpl); ok && len(t.Parts) == 1 && t.Parts[0].Hole != nil {
				cl = t.Parts[0].Hole.Class
			}
		}
		if lit, ok := as["lit"]; ok {
			return Lit(lit)
		}
		return HoleT(it.newHole(&Hole{Kind: "param", Class: cl, Desc: name}))
	case ts == "bool":
		return it.choose(2, name, "true", "false") == 0
	case ts == "int":
		return it.choose(it.MaxArity+1, name)
	}
	it.unsupported(0, "cannot build a symbolic argument %s of type %s", name, ts)
	return nil
}

// flatPred decides a structural "comparable and reference-free" predicate
// (equal.canEqual, deepcopy.canCopy, derive.IsComparable): true for basic types
// other than untyped nil, structs of such fields, arrays of such elements;
// false for every other kind. Where the structure of the type is not known yet
// the answer is a choice, recorded so that Consistent() can prune the path if a
// later refinement contradicts it.
func (it *Interp) flatPred(fn string, t *SymType) bool {
	f := it.fact(t)
	key := fn + "(" + t.R().Desc + ")"
	if v, ok := it.run.preds[key]; ok {
		return v == Yes
	}
	set := func(b bool) bool {
		if b {
			it.run.preds[key] = Yes
		} else {
			it.run.preds[key] = No
		}
		it.run.flats = append(it.run.flats, flatRec{fn, t.R()})
		return b
	}
	switch f.Kind {
	case KPointer, KSlice, KMap, KChan, KSignature, KInterface, KTuple:
		return set(false)
	case KArray:
		return set(it.flatPred(fn, it.elemOf(t, 0)))
	case KStruct:
		if f.NFields >= 0 {
			all := true
			for _, fv := range f.Fields {
				if !it.flatPred(fn, fv.Type) {
					all = false
				}
			}
			return set(all)
		}
	case KBasic:
		if f.Basic != nil && !f.Basic[types.UntypedNil] {
			return set(true)
		}
		if len(f.Basic) == 1 {
			return set(false)
		}
	}
	if f.Kind == KUnknown && f.NotKinds[KBasic] && f.NotKinds[KStruct] && f.NotKinds[KArray] {
		// every kind that can be flat has been excluded on this path
		return set(false)
	}
	return set(it.choose(2, key, "yes", "no") == 0)
}

type flatRec struct {
	fn string
	t  *SymType
}

// Consistent reports whether the recorded structural predicates agree with what
// the path finally knows about the types; an inconsistent path is infeasible.
func (p *Path) Consistent() (bool, string) {
	val := func(fn string, t *SymType) Tri { return p.Preds[fn+"("+t.Desc+")"] }
	for _, r := range p.flats {
		f := p.Facts[r.t]
		v := val(r.fn, r.t)
		if f == nil || v == Unknown {
			continue
		}
		switch f.Kind {
		case KPointer, KSlice, KMap, KChan, KSignature, KInterface, KTuple:
			if v == Yes {
				return false, r.fn + "(" + r.t.Desc + ") on a " + f.Kind.String()
			}
		case KArray:
			if f.Elem != nil {
				if ev := val(r.fn, f.Elem.R()); ev != Unknown && ev != v {
					return false, r.fn + "(" + r.t.Desc + ") differs from its element"
				}
			}
		case KStruct:
			if f.NFields >= 0 {
				allYes, anyNo := true, false
				for _, fv := range f.Fields {
					switch val(r.fn, fv.Type.R()) {
					case No:
						anyNo, allYes = true, false
					case Unknown:
						allYes = false
					}
				}
				if v == Yes && anyNo {
					return false, r.fn + "(" + r.t.Desc + ") with a non-flat field"
				}
				if v == No && allYes {
					return false, "!" + r.fn + "(" + r.t.Desc + ") with only flat fields"
				}
			}
		case KBasic:
			if v == No && f.Basic != nil && !f.Basic[types.UntypedNil] {
				return false, "!" + r.fn + "(" + r.t.Desc + ") on a basic type"
			}
			if v == Yes && f.Basic != nil && len(f.Basic) == 1 && f.Basic[types.UntypedNil] {
				return false, r.fn + " on untyped nil"
			}
		}
	}
	return true, ""
}

// ParamNames gives the parameter names of a repository function.
func (it *Interp) ParamNames(key string) []string {
	di := it.byKey[key]
	if di == nil {
		return nil
	}
	var out []string
	for _, fl := range di.decl.Type.Params.List {
		for _, n := range fl.Names {
			out = append(out, n.Name)
		}
	}
	return out
}

// g-requires: forbidden combinations of operand classes and type kinds, e.g.
//
//	g-requires: !(class(this)=Star && kind(typ)=Struct)
//
// At a call site every atom must be decidable from what the caller has
// established; an atom that is not known to be false counts as possibly true.
func parseForbidden(con *contract.Func) [][]string {
	var out [][]string
	for _, r := range con.Attrs["g-requires"] {
		r = strings.TrimSpace(r)
		r = strings.TrimPrefix(r, "!(")
		r = strings.TrimSuffix(r, ")")
		var atoms []string
		for _, a := range strings.Split(r, "&&") {
			atoms = append(atoms, strings.TrimSpace(a))
		}
		out = append(out, atoms)
	}
	return out
}

func operandClass(t *Tmpl) string {
	if len(t.Parts) == 0 {
		return ""
	}
	p := t.Parts[0]
	if p.Hole != nil {
		if len(t.Parts) == 1 {
			return p.Hole.Class
		}
		return "Primary"
	}
	switch p.Lit[0] {
	case '*':
		return "Star"
	case '&':
		return "Amp"
	case '(':
		return "Paren"
	}
	return "Primary"
}

// atomHolds: Yes / No / Unknown for "class(p)=C" or "kind(p)=K".
func (it *Interp) atomHolds(atom string, byName map[string]Value) Tri {
	i := strings.Index(atom, "=")
	if i < 0 {
		return Unknown
	}
	lhs, rhs := strings.TrimSpace(atom[:i]), strings.TrimSpace(atom[i+1:])
	if strings.HasPrefix(lhs, "class(") {
		t, _ := byName[strings.TrimSuffix(strings.TrimPrefix(lhs, "class("), ")")].(*Tmpl)
		if t == nil {
			return Unknown
		}
		c := operandClass(t)
		if c == rhs || (rhs == "Ident" && c == "Primary") {
			return Yes
		}
		return No
	}
	if strings.HasPrefix(lhs, "notlit(") {
		// the operand text is something else than the literal rhs
		t, _ := byName[strings.TrimSuffix(strings.TrimPrefix(lhs, "notlit("), ")")].(*Tmpl)
		if t == nil {
			return Unknown
		}
		if t.IsConcrete() {
			if t.Concrete() == rhs {
				return No
			}
			return Yes
		}
		return Unknown
	}
	if strings.HasPrefix(lhs, "kind(") {
		t, _ := byName[strings.TrimSuffix(strings.TrimPrefix(lhs, "kind("), ")")].(*SymType)
		if t == nil {
			return Unknown
		}
		f := it.fact(t)
		k := kindOfTypeName(rhs)
		if f.Kind != KUnknown {
			if f.Kind == k {
				return Yes
			}
			return No
		}
		if f.NotKinds[k] {
			return No
		}
		return Unknown
	}
	return Unknown
}

func (it *Interp) checkGRequires(con *contract.Func, args []Value) string {
	byName := map[string]Value{}
	for i, p := range con.Params {
		if i < len(args) {
			byName[p] = args[i]
		}
	}
	for _, atoms := range parseForbidden(con) {
		all := true
		for _, a := range atoms {
			if it.atomHolds(a, byName) == No {
				all = false
			}
		}
		if all {
			return "!(" + strings.Join(atoms, " && ") + ") is not established"
		}
	}
	return ""
}

// EntryViolatesGRequires: the finished path contradicts the entry function's own g-requires.
func (it *Interp) EntryViolatesGRequires(entryKey string, p *Path) bool {
	con := it.L.Contracts.Funcs[entryKey]
	if con == nil {
		return false
	}
	save := it.run
	it.run = &Run{facts: p.Facts}
	defer func() { it.run = save }()
	byName := map[string]Value{}
	for i, n := range con.Params {
		if i < len(p.Args) {
			byName[n] = p.Args[i]
		}
	}
	for _, atoms := range parseForbidden(con) {
		all := true
		for _, a := range atoms {
			if it.atomHolds(a, byName) != Yes {
				all = false
			}
		}
		if all {
			return true
		}
	}
	return false
}

// FlatPredConformance checks a contract "abstract: pred flat" against the body
// it abstracts: the body is explored with its recursive calls abstracted (the
// induction hypothesis) and, path by path, its answer is compared with the
// flat predicate of the argument type as the path finally knows it (true for
// basic types other than untyped nil, structs of flat fields, arrays of flat
// elements; false for every other kind). Where the body has not looked at
// something the predicate depends on, both cases are explored.
func (it *Interp) FlatPredConformance(key string, limit int) (paths []*Path, err error) {
	it.postBody = func(it *Interp, p *Path) {
		if len(p.Args) != 1 || len(p.Ret) != 1 {
			p.Conformance = "not a one-argument predicate"
			return
		}
		t, ok := p.Args[0].(*SymType)
		got, ok2 := p.Ret[0].(bool)
		if !ok || !ok2 {
			p.Conformance = fmt.Sprintf("result %s is not a decided boolean", Describe(p.Ret[0]))
			return
		}
		want := it.flatPred(key, t)
		if got != want {
			p.Conformance = fmt.Sprintf("the body answers %v, the flat predicate is %v", got, want)
		}
	}
	defer func() { it.postBody = nil }()
	return it.Explore(key, func(it *Interp) (Value, []Value) { return nil, []Value{it.newType("tt")} }, limit)
}
