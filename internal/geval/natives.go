package geval

import (
	"fmt"
	"go/token"
	"go/types"
	"sort"
	"strconv"
	"strings"
)

// SymBasicKind is typ.Kind() of a symbolic basic type.
type SymBasicKind struct{ T *SymType }

// OptType is a *types.Type that may be nil (method-lookup helpers).
type OptType struct{ T *SymType }

// TypArray is go/types.Typ.
type TypArray struct{}

var allBasic = []types.BasicKind{types.Bool, types.Int, types.Int8, types.Int16, types.Int32, types.Int64,
	types.Uint, types.Uint8, types.Uint16, types.Uint32, types.Uint64, types.Uintptr,
	types.Float32, types.Float64, types.Complex64, types.Complex128, types.String, types.UnsafePointer, types.UntypedNil}

// BasicClass groups basic kinds that no generator distinguishes further.
func BasicClass(k types.BasicKind) string {
	switch k {
	case types.Bool:
		return "bool"
	case types.String:
		return "string"
	case types.Float32, types.Float64:
		return "float"
	case types.Complex64, types.Complex128:
		return "complex"
	case types.UnsafePointer:
		return "unsafeptr"
	case types.UntypedNil:
		return "untypednil"
	}
	return "integer"
}

func (it *Interp) basicType(k types.BasicKind) *SymType {
	if t, ok := it.run.basics[k]; ok {
		return t
	}
	t := it.newType(types.Typ[k].Name())
	f := it.fact(t)
	f.Named, f.Kind = No, KBasic
	f.Basic = map[types.BasicKind]bool{k: true}
	it.run.basics[k] = t
	return t
}

func goTypeKind(t types.Type) (Kind, string) {
	s := types.TypeString(t, nil)
	s = strings.TrimPrefix(s, "*")
	if strings.HasPrefix(s, "go/types.") {
		n := strings.TrimPrefix(s, "go/types.")
		return kindOfTypeName(n), n
	}
	return KUnknown, s
}

// decideNamed decides whether a root symbolic type is a *types.Named.
func (it *Interp) decideNamed(t *SymType) bool {
	f := it.fact(t)
	return it.decideTri(&f.Named, "named("+t.R().Desc+")", token.NoPos)
}

// decideKind decides whether the underlying kind of t is k.
func (it *Interp) decideKind(t *SymType, k Kind) bool {
	f := it.fact(t)
	if f.Kind != KUnknown {
		return f.Kind == k
	}
	if f.NotKinds[k] {
		return false
	}
	if it.choose2("kind("+t.R().Desc+")=="+k.String(), token.NoPos) {
		f.Kind = k
		return true
	}
	if f.NotKinds == nil {
		f.NotKinds = map[Kind]bool{}
	}
	f.NotKinds[k] = true
	return false
}

// dynTypeIs implements v.(T) for the value kinds the generators assert on.
func (it *Interp) dynTypeIs(v Value, tt types.Type, pos token.Pos) bool {
	k, name := goTypeKind(tt)
	switch x := v.(type) {
	case NilVal:
		return false
	case *SymType:
		switch name {
		case "Named":
			if x.IsView() {
				return false
			}
			return it.decideNamed(x)
		case "Alias", "TypeParam", "Union":
			return false // assumption: no alias / type parameter types reach the generators
		}
		if k == KUnknown {
			if _, isIface := tt.Underlying().(*types.Interface); isIface {
				return true // assertion to an interface all types satisfy (types.Type, ObjectGetter for Named)
			}
			it.unsupported(pos, "type assertion of a symbolic type to %s", tt)
		}
		if !x.IsView() {
			if it.decideNamed(x) {
				return false
			}
		}
		return it.decideKind(x, k)
	case *ErrVal:
		return false
	}
	it.unsupported(pos, "type assertion on %T to %s", v, tt)
	return false
}

func (it *Interp) basicKindIs(b *SymBasicKind, k types.BasicKind, pos token.Pos) Value {
	// aliases
	if k == types.Byte {
		k = types.Uint8
	}
	if k == types.Rune {
		k = types.Int32
	}
	f := it.fact(b.T)
	if f.Basic == nil {
		f.Basic = map[types.BasicKind]bool{}
		for _, a := range allBasic {
			f.Basic[a] = true
		}
	}
	if !f.Basic[k] {
		return false
	}
	if len(f.Basic) == 1 {
		return true
	}
	if it.choose2(fmt.Sprintf("basickind(%s)==%s", b.T.R().Desc, types.Typ[k].Name()), pos) {
		f.Basic = map[types.BasicKind]bool{k: true}
		return true
	}
	delete(f.Basic, k)
	return false
}

// ---------------------------------------------------------------- component access

func (it *Interp) elemOf(t *SymType, pos token.Pos) *SymType {
	f := it.fact(t)
	if f.Elem == nil {
		f.Elem = it.newType("Elem(" + t.R().Desc + ")")
	}
	return f.Elem
}

func (it *Interp) keyOf(t *SymType) *SymType {
	f := it.fact(t)
	if f.KeyT == nil {
		f.KeyT = it.newType("Key(" + t.R().Desc + ")")
	}
	return f.KeyT
}

func (it *Interp) numFields(t *SymType) int {
	f := it.fact(t)
	if f.NFields < 0 {
		f.NFields = it.choose(it.MaxArity+1, "numfields("+t.R().Desc+")")
		for i := 0; i < f.NFields; i++ {
			ft := it.newType(fmt.Sprintf("Field%d(%s)", i, t.R().Desc))
			h := it.newHole(&Hole{Kind: "fieldname", Class: "Ident", Desc: fmt.Sprintf("F%d", i), Owner: t.R(), Index: i})
			f.Fields = append(f.Fields, &SymVar{NameT: HoleT(h), Type: ft, Desc: fmt.Sprintf("field%d(%s)", i, t.R().Desc)})
		}
	}
	return f.NFields
}

func (it *Interp) tupleOf(t *SymType, which string) *SymTuple {
	f := it.fact(t)
	slot := &f.Params
	if which == "Results" {
		slot = &f.Results
	}
	if *slot == nil {
		n := it.choose(it.MaxArity+1, "len("+which+"("+t.R().Desc+"))")
		tup := &SymTuple{Desc: which + "(" + t.R().Desc + ")"}
		// a function type may carry parameter names or not (go/types prints names only when present)
		named := true
		if which == "Params" && n > 0 && it.NameVariants {
			named = it.choose(2, "names("+t.R().Desc+")", "present", "absent") == 0
		}
		for i := 0; i < n; i++ {
			vt := it.newType(fmt.Sprintf("%s%d(%s)", which, i, t.R().Desc))
			kind := "paramname"
			if which == "Results" {
				kind = "resultname"
			}
			h := it.newHole(&Hole{Kind: kind, Class: "Ident", Desc: fmt.Sprintf("%s%d", strings.ToLower(which[:1]), i), Owner: t.R(), Index: i})
			nm := HoleT(h)
			if !named || which == "Results" {
				nm = Lit("") // results of the signatures in play are unnamed
			}
			tup.Vars = append(tup.Vars, &SymVar{NameT: nm, Type: vt, Desc: fmt.Sprintf("%s%d(%s)", which, i, t.R().Desc)})
		}
		*slot = tup
	}
	return *slot
}

// ---------------------------------------------------------------- function / method values

func (it *Interp) funcValue(o *types.Func, recv Value, pos token.Pos) Value {
	if di := it.decls[o]; di != nil {
		if con := it.Abstract[di.key]; con != nil && !(di.key == it.entryKey && !it.entryDone) {
			return it.abstractFunc(di, con, recv)
		}
		return &FuncVal{Decl: di.decl, Info: di.info, Recv: recv, Name: di.key}
	}
	full := o.FullName()
	if n, ok := natives[full]; ok {
		return &FuncVal{Native: n, Name: full}
	}
	it.unsupported(pos, "call of %s: not in the modelled API surface", full)
	return nil
}

func (it *Interp) methodValue(recv Value, fn *types.Func, pos token.Pos) Value {
	name := fn.Name()
	switch r := recv.(type) {
	case *TypesMapObj:
		return it.typesMapMethod(r, name, pos)
	case *DepObj:
		return it.typesMapMethod(&TypesMapObj{Plugin: r.Plugin}, name, pos)
	case *PrinterObj:
		return it.printerMethod(name, pos)
	case *SymType:
		return it.symTypeMethod(r, name, pos)
	case *SymVar:
		return it.symVarMethod(r, name, pos)
	case *SymTuple:
		switch name {
		case "Len":
			return nat(name, func(it *Interp, a []Value) ([]Value, error) { return []Value{len(r.Vars)}, nil })
		case "String":
			return nat(name, func(it *Interp, a []Value) ([]Value, error) {
				return []Value{HoleT(it.newHole(&Hole{Kind: "tuplestr", Class: "Paren", Desc: "String(" + r.Desc + ")", Args: []Value{r}}))}, nil
			})
		case "At":
			return nat(name, func(it *Interp, a []Value) ([]Value, error) {
				i := a[0].(int)
				if i < 0 || i >= len(r.Vars) {
					it.event("panic", pos, fmt.Sprintf("Tuple.At(%d) out of range (len %d)", i, len(r.Vars)))
					panic(abortRun{"generator panic"})
				}
				return []Value{r.Vars[i]}, nil
			})
		}
	case *SymObj:
		switch name {
		case "Name":
			return nat(name, func(it *Interp, a []Value) ([]Value, error) { return []Value{r.NameT}, nil })
		case "Pkg":
			return nat(name, func(it *Interp, a []Value) ([]Value, error) { return []Value{r.Pkg}, nil })
		}
	case *SymPkg:
		switch name {
		case "Path", "Name":
			return nat(name, func(it *Interp, a []Value) ([]Value, error) {
				return []Value{HoleT(it.newHole(&Hole{Kind: "pkg" + strings.ToLower(name), Class: "Any", Desc: name + "(" + r.Desc + ")"}))}, nil
			})
		}
	case *ErrVal:
		if name == "Error" {
			return nat(name, func(it *Interp, a []Value) ([]Value, error) { return []Value{r.Msg}, nil })
		}
	case *StructVal, *PtrVal:
		// a method declared in the repository on the struct's type
		sv := it.structOf(recv, pos)
		obj, _, _ := types.LookupFieldOrMethod(types.NewPointer(sv.Type), true, fn.Pkg(), name)
		if m, ok := obj.(*types.Func); ok {
			if _, isPtr := recv.(*PtrVal); !isPtr {
				recv = &PtrVal{Struct: sv}
			}
			// value receivers get the struct itself
			if sig := m.Type().(*types.Signature); sig.Recv() != nil {
				if _, ptrRecv := sig.Recv().Type().(*types.Pointer); !ptrRecv {
					recv = sv
				}
			}
			return it.funcValue(m, recv, pos)
		}
	}
	if _, isNil := recv.(NilVal); isNil {
		// a method of a go/types or repository pointer type called on a nil pointer: the
		// methods the generators use dereference their receiver
		it.event("panic", pos, fmt.Sprintf("nil pointer dereference: method %s called on a nil %s", name, fn.Type().(*types.Signature).Recv().Type()))
		panic(abortRun{"generator panic"})
	}
	it.unsupported(pos, "method %s on %T", name, recv)
	return nil
}

func nat(name string, f func(it *Interp, args []Value) ([]Value, error)) *FuncVal {
	return &FuncVal{Native: f, Name: name}
}

func (it *Interp) symTypeMethod(t *SymType, name string, pos token.Pos) Value {
	return nat("types."+name, func(it *Interp, a []Value) ([]Value, error) {
		switch name {
		case "Underlying":
			if t.IsView() {
				return []Value{t}, nil
			}
			return []Value{&SymType{ID: t.ID, Desc: t.Desc, Root: t}}, nil
		case "Elem":
			return []Value{it.elemOf(t, pos)}, nil
		case "Key":
			return []Value{it.keyOf(t)}, nil
		case "Kind":
			return []Value{&SymBasicKind{T: t}}, nil
		case "Info":
			// types.BasicInfo of a symbolic basic type: decide the class of the kind
			// (bool / integer / float / complex / string / ...) and answer with the
			// flags all kinds of that class share
			f := it.fact(t)
			if f.Basic == nil {
				f.Basic = map[types.BasicKind]bool{}
				for _, a := range allBasic {
					f.Basic[a] = true
				}
			}
			classes := map[string][]types.BasicKind{}
			var order []string
			var ks []int
			for k := range f.Basic {
				ks = append(ks, int(k))
			}
			sort.Ints(ks)
			for _, k := range ks {
				c := BasicClass(types.BasicKind(k))
				if types.BasicKind(k) >= types.Uint && types.BasicKind(k) <= types.Uintptr {
					c = "unsigned"
				}
				if _, ok := classes[c]; !ok {
					order = append(order, c)
				}
				classes[c] = append(classes[c], types.BasicKind(k))
			}
			if len(order) == 0 {
				return []Value{0}, nil
			}
			pick := 0
			if len(order) > 1 {
				pick = it.choose(len(order), "basicclass("+t.R().Desc+")", order...)
			}
			keep := classes[order[pick]]
			f.Basic = map[types.BasicKind]bool{}
			for _, k := range keep {
				f.Basic[k] = true
			}
			return []Value{int(types.Typ[keep[0]].Info())}, nil
		case "NumFields":
			return []Value{it.numFields(t)}, nil
		case "Field":
			n := it.numFields(t)
			i := a[0].(int)
			if i < 0 || i >= n {
				it.event("panic", pos, fmt.Sprintf("Struct.Field(%d) out of range (%d fields)", i, n))
				panic(abortRun{"generator panic"})
			}
			return []Value{it.fact(t).Fields[i]}, nil
		case "Params":
			return []Value{it.tupleOf(t, "Params")}, nil
		case "Results":
			return []Value{it.tupleOf(t, "Results")}, nil
		case "Variadic":
			f := it.fact(t)
			return []Value{it.decideTri(&f.Variadic, "variadic("+t.R().Desc+")", pos)}, nil
		case "Recv":
			return []Value{NilVal{}}, nil
		case "Obj":
			f := it.fact(t)
			if f.Obj == nil {
				h := it.newHole(&Hole{Kind: "typename", Class: "Ident", Desc: "Name(" + t.R().Desc + ")", Type: t.R()})
				f.Obj = &SymObj{NameT: HoleT(h), Pkg: &SymPkg{Desc: "Pkg(" + t.R().Desc + ")"}, Of: t.R()}
			}
			return []Value{f.Obj}, nil
		case "Dir":
			f := it.fact(t)
			if f.ChanDir < 0 {
				f.ChanDir = it.choose(3, "chandir("+t.R().Desc+")", "SendRecv", "SendOnly", "RecvOnly")
			}
			return []Value{f.ChanDir}, nil
		case "String":
			return []Value{HoleT(it.newHole(&Hole{Kind: "typestr", Class: "TypeText", Desc: "String(" + t.String() + ")", Type: t}))}, nil
		case "At":
			if it.fact(t).Kind == KTuple {
				tup := it.tupleOf(t, "Results")
				i, _ := a[0].(int)
				if i < 0 || i >= len(tup.Vars) {
					it.event("panic", pos, fmt.Sprintf("Tuple.At(%d) out of range (len %d)", i, len(tup.Vars)))
					panic(abortRun{"generator panic"})
				}
				return []Value{tup.Vars[i]}, nil
			}
		case "Len":
			f := it.fact(t)
			if f.Kind == KTuple {
				// a tuple type (the type of a multi-valued call used as an argument)
				return []Value{len(it.tupleOf(t, "Results").Vars)}, nil
			}
			if f.ArrayLen == nil {
				f.ArrayLen = it.newHole(&Hole{Kind: "arraylen", Class: "IntLit", Desc: "Len(" + t.R().Desc + ")"})
			}
			return []Value{HoleT(f.ArrayLen)}, nil
		}
		return nil, fmt.Errorf("go/types method %s on a symbolic type is not modelled", name)
	})
}

func (it *Interp) symVarMethod(v *SymVar, name string, pos token.Pos) Value {
	return nat("Var."+name, func(it *Interp, a []Value) ([]Value, error) {
		switch name {
		case "Name":
			return []Value{v.NameT}, nil
		case "Type":
			return []Value{v.Type}, nil
		case "Pos":
			return []Value{0}, nil
		case "Pkg":
			return []Value{&SymPkg{Desc: "Pkg(" + v.Desc + ")"}}, nil
		case "Embedded", "Anonymous":
			return []Value{it.decideTri(&v.Embedded, "embedded("+v.Desc+")", pos)}, nil
		case "Exported":
			return []Value{it.pred("exported(" + v.Desc + ")")}, nil
		}
		return nil, fmt.Errorf("types.Var method %s is not modelled", name)
	})
}

// ---------------------------------------------------------------- TypesMap / Printer / Dependency

func (it *Interp) typeArgs(args []Value) []*SymType {
	var ts []*SymType
	for _, a := range args {
		switch x := a.(type) {
		case *SymType:
			ts = append(ts, x)
		case *SliceVal:
			for _, e := range x.Elems {
				if t, ok := e.(*SymType); ok {
					ts = append(ts, t)
				}
			}
		}
	}
	return ts
}

func (it *Interp) typesMapMethod(tm *TypesMapObj, name string, pos token.Pos) Value {
	return nat("TypesMap."+name, func(it *Interp, a []Value) ([]Value, error) {
		switch name {
		case "GetFuncName":
			ts := it.typeArgs(a)
			var ds []string
			for _, t := range ts {
				ds = append(ds, t.String())
			}
			h := it.newHole(&Hole{Kind: "funcname", Class: "Ident", Desc: tm.Plugin + "(" + strings.Join(ds, ",") + ")", Plugin: tm.Plugin, Typs: ts})
			it.run.reqs = append(it.run.reqs, Request{Plugin: tm.Plugin, Typs: ts, Hole: h, Pos: fmtPos(it.Fset, pos)})
			return []Value{HoleT(h)}, nil
		case "SetFuncName":
			it.run.setNames++
			nameT := a[0].(*Tmpl)
			if it.choose(2, "SetFuncName", "ok", "err") == 0 {
				return []Value{nameT, NilVal{}}, nil
			}
			ev := &ErrVal{Msg: Lit("SetFuncName: conflict or duplicate"), From: "SetFuncName"}
			it.run.errs = append(it.run.errs, ev)
			return []Value{Lit(""), ev}, nil
		case "Generating":
			it.run.gens = append(it.run.gens, it.typeArgs(a))
			return nil, nil
		case "TypeString", "TypeStringBypass":
			if tup, ok := a[0].(*SymTuple); ok {
				// go/types prints a tuple as "(name type, ...)"
				return []Value{HoleT(it.newHole(&Hole{Kind: "tuplestr", Class: "Paren", Desc: name + "(" + tup.Desc + ")", Args: []Value{tup}}))}, nil
			}
			t, ok := a[0].(*SymType)
			if !ok {
				return nil, fmt.Errorf("TypeString of %T", a[0])
			}
			return []Value{HoleT(it.newHole(&Hole{Kind: "typestr", Class: "TypeText", Desc: name + "(" + t.String() + ")", Type: t}))}, nil
		case "FieldStrings":
			fields, _ := a[0].(*SliceVal)
			if it.choose(2, "FieldStrings", "ok", "err") == 1 {
				ev := &ErrVal{Msg: Lit("FieldStrings: format error"), From: "FieldStrings"}
				it.run.errs = append(it.run.errs, ev)
				return []Value{NilVal{}, ev}, nil
			}
			out := &SliceVal{}
			if fields != nil {
				for i, f := range fields.Elems {
					sv, _ := f.(*SymVar)
					h := &Hole{Kind: "fielddecl", Class: "FieldDecl", Desc: fmt.Sprintf("fielddecl%d", i)}
					if sv != nil {
						h.Type = sv.Type
						h.Args = []Value{sv}
					}
					out.Elems = append(out.Elems, HoleT(it.newHole(h)))
				}
			}
			return []Value{out, NilVal{}}, nil
		case "IsExternal":
			return []Value{it.pred("IsExternal(" + Describe(a[0]) + ")")}, nil
		case "Prefix":
			return []Value{HoleT(it.newHole(&Hole{Kind: "prefix", Class: "Ident", Desc: "prefix(" + tm.Plugin + ")"}))}, nil
		}
		return nil, fmt.Errorf("TypesMap.%s is not modelled", name)
	})
}

func (it *Interp) printerMethod(name string, pos token.Pos) Value {
	return nat("Printer."+name, func(it *Interp, a []Value) ([]Value, error) {
		r := it.run
		switch name {
		case "P":
			format, ok := a[0].(*Tmpl)
			if !ok {
				return nil, fmt.Errorf("P with a non-string format")
			}
			var rest []Value
			for _, x := range a[1:] {
				if sv, ok := x.(*SliceVal); ok && len(a) == 2 {
					rest = append(rest, sv.Elems...)
				} else {
					rest = append(rest, x)
				}
			}
			text, err := it.sprintf(format, rest)
			if err != nil {
				return nil, err
			}
			r.out = append(r.out, Line{Text: text, Indent: r.indent, Pos: pos})
			return nil, nil
		case "In":
			r.indent++
			return nil, nil
		case "Out":
			if r.indent == 0 {
				it.event("panic", pos, "bug in code generator: unindenting more than has been indented")
				panic(abortRun{"generator panic"})
			}
			r.indent--
			return nil, nil
		case "NewImport":
			nm, _ := a[0].(*Tmpl)
			path, _ := a[1].(*Tmpl)
			return []Value{nat("Import", func(it *Interp, _ []Value) ([]Value, error) {
				h := it.newHole(&Hole{Kind: "import", Class: "Ident", Desc: nm.String(), Names: []string{path.String()}})
				it.run.imports = append(it.run.imports, h)
				return []Value{HoleT(h)}, nil
			})}, nil
		case "HasContent":
			return []Value{len(r.out) > 0}, nil
		}
		return nil, fmt.Errorf("Printer.%s is not modelled", name)
	})
}

// ---------------------------------------------------------------- fmt / strings / strconv / go/types functions

func argList(a []Value) []Value {
	// variadic natives receive either the values or one slice
	if len(a) == 1 {
		if sv, ok := a[0].(*SliceVal); ok {
			return sv.Elems
		}
	}
	return a
}

func (it *Interp) valueText(v Value, verb byte) *Tmpl {
	switch x := v.(type) {
	case *Tmpl:
		if verb == 'q' {
			return Concat(Lit(`"`), x, Lit(`"`))
		}
		return x
	case int:
		return Lit(strconv.Itoa(x))
	case bool:
		return Lit(strconv.FormatBool(x))
	case *ErrVal:
		return x.Msg
	case *SymType:
		return HoleT(it.newHole(&Hole{Kind: "valtext", Class: "Any", Desc: "fmt(" + x.String() + ")", Type: x}))
	}
	return HoleT(it.newHole(&Hole{Kind: "valtext", Class: "Any", Desc: "fmt(" + Describe(v) + ")"}))
}

// sprintf formats a template; holes inside the format are copied through
// (identifiers and type strings contain no '%': assumption A-ident).
func (it *Interp) sprintf(format *Tmpl, args []Value) (*Tmpl, error) {
	var out []*Tmpl
	next := 0
	for _, p := range format.Parts {
		if p.Hole != nil {
			out = append(out, HoleT(p.Hole))
			continue
		}
		s := p.Lit
		for i := 0; i < len(s); i++ {
			c := s[i]
			if c != '%' {
				j := i
				for j < len(s) && s[j] != '%' {
					j++
				}
				out = append(out, Lit(s[i:j]))
				i = j - 1
				continue
			}
			i++
			if i >= len(s) {
				return nil, fmt.Errorf("format ends with %%")
			}
			if s[i] == '%' {
				out = append(out, Lit("%"))
				continue
			}
			// flags, explicit index
			sharp := false
			argIdx := -1
			for i < len(s) && (s[i] == '#' || s[i] == '+' || s[i] == '-' || s[i] == ' ' || s[i] == '0') {
				if s[i] == '#' {
					sharp = true
				}
				i++
			}
			if i < len(s) && s[i] == '[' {
				j := strings.IndexByte(s[i:], ']')
				if j < 0 {
					return nil, fmt.Errorf("bad argument index in format")
				}
				n, err := strconv.Atoi(s[i+1 : i+j])
				if err != nil {
					return nil, err
				}
				argIdx = n - 1
				i += j + 1
			}
			if i >= len(s) {
				return nil, fmt.Errorf("format ends inside a verb")
			}
			verb := s[i]
			_ = sharp
			if argIdx >= 0 {
				next = argIdx
			}
			if next >= len(args) {
				out = append(out, Lit("%!"+string(verb)+"(MISSING)"))
				it.event("format", token.NoPos, "format verb without argument: "+format.String())
				continue
			}
			switch verb {
			case 's', 'v', 'd', 'q', 'T', 't':
				out = append(out, it.valueText(args[next], verb))
			default:
				return nil, fmt.Errorf("format verb %%%c is not modelled", verb)
			}
			next++
		}
	}
	if next < len(args) {
		// fmt appends %!(EXTRA ...): the emitted text would be garbage
		used := false
		for _, p := range format.Parts {
			if p.Hole == nil && strings.Contains(p.Lit, "[") {
				used = true
			}
		}
		if !used {
			out = append(out, Lit("%!(EXTRA)"))
			it.event("format", token.NoPos, "more arguments than verbs: "+format.String())
		}
	}
	return Concat(out...), nil
}

func tmplArg(v Value) (*Tmpl, error) {
	t, ok := v.(*Tmpl)
	if !ok {
		return nil, fmt.Errorf("expected a string, got %T", v)
	}
	return t, nil
}

// hasPrefix decides strings.HasPrefix(s, p) for a concrete p.
func (it *Interp) hasPrefix(s *Tmpl, p string) (bool, error) {
	if len(p) == 0 {
		return true, nil
	}
	if len(s.Parts) == 0 {
		return false, nil
	}
	first := s.Parts[0]
	if first.Hole == nil {
		if len(first.Lit) >= len(p) {
			return strings.HasPrefix(first.Lit, p), nil
		}
		if !strings.HasPrefix(p, first.Lit) {
			return false, nil
		}
		return it.pred("hasPrefix(" + s.String() + "," + p + ")"), nil
	}
	h := first.Hole
	if len(p) == 1 {
		switch classFirst(h.Class) {
		case "ident":
			return false, nil // p is never a letter/underscore at the call sites (* & ( checked below)
		case "*", "&", "(":
			return classFirst(h.Class) == p, nil
		case "digit":
			return false, nil
		}
	}
	return it.pred("hasPrefix(" + s.String() + "," + p + ")"), nil
}

func (it *Interp) hasSuffix(s *Tmpl, p string) (bool, error) {
	if len(p) == 0 {
		return true, nil
	}
	if len(s.Parts) == 0 {
		return false, nil
	}
	last := s.Parts[len(s.Parts)-1]
	if last.Hole == nil {
		if len(last.Lit) >= len(p) {
			return strings.HasSuffix(last.Lit, p), nil
		}
		return it.pred("hasSuffix(" + s.String() + "," + p + ")"), nil
	}
	if len(p) == 1 {
		switch classLast(last.Hole.Class) {
		case "ident", "digit":
			return false, nil
		case ")":
			return p == ")", nil
		}
	}
	return it.pred("hasSuffix(" + s.String() + "," + p + ")"), nil
}

func (it *Interp) tmplSlice(t *Tmpl, lo, hi int, pos token.Pos) Value {
	it.unsupported(pos, "slicing a symbolic string")
	return nil
}

func (it *Interp) tmplLen(t *Tmpl, pos token.Pos) Value {
	it.unsupported(pos, "len of a symbolic string")
	return nil
}

var natives map[string]func(it *Interp, a []Value) ([]Value, error)

func init() {
	natives = map[string]func(it *Interp, a []Value) ([]Value, error){
		"fmt.Sprintf": func(it *Interp, a []Value) ([]Value, error) {
			f, err := tmplArg(a[0])
			if err != nil {
				return nil, err
			}
			t, err := it.sprintf(f, argList(a[1:]))
			return []Value{t}, err
		},
		"fmt.Errorf": func(it *Interp, a []Value) ([]Value, error) {
			f, err := tmplArg(a[0])
			if err != nil {
				return nil, err
			}
			t, err := it.sprintf(f, argList(a[1:]))
			if err != nil {
				return nil, err
			}
			pos := ""
			if len(it.frames) > 0 {
				pos = it.frames[len(it.frames)-1].name
			}
			ev := &ErrVal{Msg: t, From: pos}
			it.run.errs = append(it.run.errs, ev)
			return []Value{ev}, nil
		},
		"errors.New": func(it *Interp, a []Value) ([]Value, error) {
			t, err := tmplArg(a[0])
			if err != nil {
				return nil, err
			}
			ev := &ErrVal{Msg: t}
			it.run.errs = append(it.run.errs, ev)
			return []Value{ev}, nil
		},
		"strconv.Itoa": func(it *Interp, a []Value) ([]Value, error) {
			n, ok := a[0].(int)
			if !ok {
				return nil, fmt.Errorf("Itoa of %T", a[0])
			}
			return []Value{Lit(strconv.Itoa(n))}, nil
		},
		"strings.HasPrefix": func(it *Interp, a []Value) ([]Value, error) {
			s, err := tmplArg(a[0])
			if err != nil {
				return nil, err
			}
			p, err := tmplArg(a[1])
			if err != nil {
				return nil, err
			}
			if !p.IsConcrete() {
				return []Value{it.pred("hasPrefix(" + s.String() + "," + p.String() + ")")}, nil
			}
			r, err := it.hasPrefix(s, p.Concrete())
			return []Value{r}, err
		},
		"strings.HasSuffix": func(it *Interp, a []Value) ([]Value, error) {
			s, err := tmplArg(a[0])
			if err != nil {
				return nil, err
			}
			p, err := tmplArg(a[1])
			if err != nil {
				return nil, err
			}
			if !p.IsConcrete() {
				return []Value{it.pred("hasSuffix(" + s.String() + "," + p.String() + ")")}, nil
			}
			r, err := it.hasSuffix(s, p.Concrete())
			return []Value{r}, err
		},
		"strings.Contains": func(it *Interp, a []Value) ([]Value, error) {
			s, err := tmplArg(a[0])
			if err != nil {
				return nil, err
			}
			p, err := tmplArg(a[1])
			if err != nil {
				return nil, err
			}
			if s.IsConcrete() && p.IsConcrete() {
				return []Value{strings.Contains(s.Concrete(), p.Concrete())}, nil
			}
			if p.IsConcrete() {
				for _, part := range s.Parts {
					if part.Hole == nil && strings.Contains(part.Lit, p.Concrete()) {
						return []Value{true}, nil
					}
				}
			}
			return []Value{it.pred("contains(" + s.String() + "," + p.String() + ")")}, nil
		},
		"strings.Join": func(it *Interp, a []Value) ([]Value, error) {
			sep, err := tmplArg(a[1])
			if err != nil {
				return nil, err
			}
			var parts []*Tmpl
			switch l := a[0].(type) {
			case *SliceVal:
				for i, e := range l.Elems {
					t, err := tmplArg(e)
					if err != nil {
						return nil, err
					}
					if i > 0 {
						parts = append(parts, sep)
					}
					parts = append(parts, t)
				}
			case NilVal:
			default:
				return nil, fmt.Errorf("Join of %T", a[0])
			}
			return []Value{Concat(parts...)}, nil
		},
		"strings.Replace": func(it *Interp, a []Value) ([]Value, error) {
			s, _ := tmplArg(a[0])
			o, _ := tmplArg(a[1])
			n, _ := tmplArg(a[2])
			cnt, _ := a[3].(int)
			if s != nil && o != nil && n != nil && s.IsConcrete() && o.IsConcrete() && n.IsConcrete() {
				return []Value{Lit(strings.Replace(s.Concrete(), o.Concrete(), n.Concrete(), cnt))}, nil
			}
			return nil, fmt.Errorf("strings.Replace on a symbolic string")
		},
		"strings.ToLower": func(it *Interp, a []Value) ([]Value, error) {
			s, err := tmplArg(a[0])
			if err != nil {
				return nil, err
			}
			if s.IsConcrete() {
				return []Value{Lit(strings.ToLower(s.Concrete()))}, nil
			}
			return nil, fmt.Errorf("ToLower of a symbolic string")
		},
		"strings.Title": func(it *Interp, a []Value) ([]Value, error) {
			s, err := tmplArg(a[0])
			if err != nil {
				return nil, err
			}
			if s.IsConcrete() {
				return []Value{Lit(strings.Title(s.Concrete()))}, nil
			}
			return nil, fmt.Errorf("Title of a symbolic string")
		},
		"strings.Split": func(it *Interp, a []Value) ([]Value, error) {
			s, err := tmplArg(a[0])
			if err != nil {
				return nil, err
			}
			sep, err := tmplArg(a[1])
			if err != nil {
				return nil, err
			}
			if s.IsConcrete() && sep.IsConcrete() {
				r := &SliceVal{}
				for _, x := range strings.Split(s.Concrete(), sep.Concrete()) {
					r.Elems = append(r.Elems, Lit(x))
				}
				return []Value{r}, nil
			}
			return nil, fmt.Errorf("Split of a symbolic string")
		},
		"go/types.Identical": func(it *Interp, a []Value) ([]Value, error) {
			x, ok1 := a[0].(*SymType)
			y, ok2 := a[1].(*SymType)
			if !ok1 || !ok2 {
				return nil, fmt.Errorf("Identical of %T, %T", a[0], a[1])
			}
			return []Value{it.identical(x, y)}, nil
		},
		"go/types.AssignableTo": func(it *Interp, a []Value) ([]Value, error) {
			x, ok1 := a[0].(*SymType)
			y, ok2 := a[1].(*SymType)
			if !ok1 || !ok2 {
				return nil, fmt.Errorf("AssignableTo of %T, %T", a[0], a[1])
			}
			if x == y {
				return []Value{true}, nil
			}
			return []Value{it.pred("AssignableTo(" + x.String() + "," + y.String() + ")")}, nil
		},
		"go/types.Comparable": func(it *Interp, a []Value) ([]Value, error) {
			t, ok := a[0].(*SymType)
			if !ok {
				return nil, fmt.Errorf("Comparable of %T", a[0])
			}
			if f := it.fact(t); f != nil {
				switch f.Kind {
				case KBasic, KPointer, KChan, KInterface:
					return []Value{true}, nil
				case KSlice, KMap, KSignature:
					return []Value{false}, nil
				}
			}
			return []Value{it.pred("types.IsComparable(" + t.R().Desc + ")")}, nil
		},
		"go/types.ConvertibleTo": func(it *Interp, a []Value) ([]Value, error) {
			return []Value{it.pred("ConvertibleTo(" + Describe(a[0]) + "," + Describe(a[1]) + ")")}, nil
		},
		"go/types.Default": func(it *Interp, a []Value) ([]Value, error) { return []Value{a[0]}, nil },
		"go/types.NewPointer": func(it *Interp, a []Value) ([]Value, error) {
			e := a[0].(*SymType)
			return []Value{it.constructed("*"+e.String(), KPointer, e, nil)}, nil
		},
		"go/types.NewSlice": func(it *Interp, a []Value) ([]Value, error) {
			e := a[0].(*SymType)
			return []Value{it.constructed("[]"+e.String(), KSlice, e, nil)}, nil
		},
		"go/types.NewMap": func(it *Interp, a []Value) ([]Value, error) {
			k, e := a[0].(*SymType), a[1].(*SymType)
			return []Value{it.constructed("map["+k.String()+"]"+e.String(), KMap, e, k)}, nil
		},
		"go/types.NewChan": func(it *Interp, a []Value) ([]Value, error) {
			dir, _ := a[0].(int)
			e := a[1].(*SymType)
			t := it.constructed(fmt.Sprintf("chan%d ", dir)+e.String(), KChan, e, nil)
			it.fact(t).ChanDir = dir
			return []Value{t}, nil
		},
		"go/types.NewVar": func(it *Interp, a []Value) ([]Value, error) {
			nm, err := tmplArg(a[2])
			if err != nil {
				return nil, err
			}
			t, ok := a[3].(*SymType)
			if !ok {
				// a types.Type implemented by the plugin itself (toerror's basicErrorType): its String() is its text
				sv, isStruct := a[3].(*StructVal)
				if !isStruct {
					return nil, fmt.Errorf("NewVar with type %T", a[3])
				}
				txt := it.callMethodByName(sv, "String")
				tt, isT := txt.(*Tmpl)
				if !isT || !tt.IsConcrete() {
					return nil, fmt.Errorf("NewVar with a custom type whose String() is not a literal")
				}
				t = it.newType(tt.Concrete())
				it.fact(t).TypeText = tt.Concrete()
			}
			return []Value{&SymVar{NameT: nm, Type: t, Desc: "newvar(" + nm.String() + ")", Concrete: nm.IsConcrete()}}, nil
		},
		"go/types.NewField": func(it *Interp, a []Value) ([]Value, error) {
			nm, err := tmplArg(a[2])
			if err != nil {
				return nil, err
			}
			t, ok := a[3].(*SymType)
			if !ok {
				return nil, fmt.Errorf("NewField with type %T", a[3])
			}
			return []Value{&SymVar{NameT: nm, Type: t, Desc: "newfield(" + nm.String() + ")", Concrete: nm.IsConcrete(), Embedded: No}}, nil
		},
		"go/types.NewParam": func(it *Interp, a []Value) ([]Value, error) {
			nm, err := tmplArg(a[2])
			if err != nil {
				return nil, err
			}
			t := a[3].(*SymType)
			return []Value{&SymVar{NameT: nm, Type: t, Desc: "newparam(" + nm.String() + ")", Concrete: nm.IsConcrete()}}, nil
		},
		"go/types.NewTuple": func(it *Interp, a []Value) ([]Value, error) {
			tup := &SymTuple{Desc: "newtuple"}
			for _, v := range argList(a) {
				sv, ok := v.(*SymVar)
				if !ok {
					return nil, fmt.Errorf("NewTuple of %T", v)
				}
				tup.Vars = append(tup.Vars, sv)
			}
			return []Value{tup}, nil
		},
		"go/types.NewSignature": func(it *Interp, a []Value) ([]Value, error) {
			params, _ := a[1].(*SymTuple)
			results, _ := a[2].(*SymTuple)
			if params == nil {
				params = &SymTuple{Desc: "noparams"}
			}
			if results == nil {
				results = &SymTuple{Desc: "noresults"}
			}
			t := it.newType("func" + tupleDesc(params) + tupleDesc(results))
			f := it.fact(t)
			f.Named, f.Kind, f.Params, f.Results = No, KSignature, params, results
			switch v := a[3].(type) {
			case bool:
				if v {
					f.Variadic = Yes
				} else {
					f.Variadic = No
				}
			}
			return []Value{t}, nil
		},
		"go/types.NewStruct": func(it *Interp, a []Value) ([]Value, error) {
			fields, _ := a[0].(*SliceVal)
			t := it.newType("struct{...}")
			f := it.fact(t)
			f.Named, f.Kind, f.NFields = No, KStruct, 0
			if fields != nil {
				for _, v := range fields.Elems {
					f.Fields = append(f.Fields, v.(*SymVar))
				}
				f.NFields = len(f.Fields)
			}
			return []Value{t}, nil
		},
		"go/types.TypeString": func(it *Interp, a []Value) ([]Value, error) {
			t, ok := a[0].(*SymType)
			if !ok {
				return nil, fmt.Errorf("TypeString of %T", a[0])
			}
			return []Value{HoleT(it.newHole(&Hole{Kind: "typestr", Class: "TypeText", Desc: "TypeString(" + t.String() + ")", Type: t}))}, nil
		},
	}
}

func tupleDesc(t *SymTuple) string {
	var ss []string
	for _, v := range t.Vars {
		ss = append(ss, v.Type.String())
	}
	return "(" + strings.Join(ss, ",") + ")"
}

func (it *Interp) constructed(desc string, k Kind, elem, key *SymType) *SymType {
	t := it.newType(desc)
	f := it.fact(t)
	f.Named, f.Kind, f.Elem, f.KeyT = No, k, elem, key
	return t
}

// identical models types.Identical.
func (it *Interp) identical(x, y *SymType) bool {
	if x == y || (x.R() == y.R() && x.IsView() == y.IsView()) {
		return true
	}
	if x.R() == y.R() {
		// Identical(t, t.Underlying()) holds exactly when t is not a named type
		return !it.decideNamed(x.R())
	}
	fx, fy := it.fact(x), it.fact(y)
	nx := !x.IsView() && fx.Named == Yes
	ny := !y.IsView() && fy.Named == Yes
	if !nx && !ny && fx.Kind != KUnknown && fy.Kind != KUnknown && (x.IsView() || fx.Named == No) && (y.IsView() || fy.Named == No) {
		if fx.Kind != fy.Kind {
			return false
		}
		switch fx.Kind {
		case KBasic:
			if len(fx.Basic) == 1 && len(fy.Basic) == 1 {
				for k := range fx.Basic {
					return fy.Basic[k]
				}
			}
		case KPointer, KSlice:
			if fx.Elem != nil && fy.Elem != nil {
				return it.identical(fx.Elem, fy.Elem)
			}
		}
	}
	a, b := x.String(), y.String()
	if b < a {
		a, b = b, a
	}
	return it.pred("Identical(" + a + "," + b + ")")
}

// callMethodByName calls a repository-declared method of a struct value.
func (it *Interp) callMethodByName(sv *StructVal, name string) Value {
	obj, _, _ := types.LookupFieldOrMethod(sv.Type, true, nil, name)
	m, ok := obj.(*types.Func)
	if !ok {
		// unexported lookups need the package
		if n, isNamed := sv.Type.(*types.Named); isNamed {
			obj, _, _ = types.LookupFieldOrMethod(sv.Type, true, n.Obj().Pkg(), name)
			m, ok = obj.(*types.Func)
		}
	}
	if !ok {
		it.unsupported(0, "value of type %s has no method %s", sv.Type, name)
	}
	fv, _ := it.funcValue(m, sv, 0).(*FuncVal)
	vs := it.callFunc(fv, nil, 0)
	if len(vs) != 1 {
		it.unsupported(0, "method %s returned %d values", name, len(vs))
	}
	return vs[0]
}
