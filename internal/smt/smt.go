// Package smt builds SMT-LIB 2 terms and discharges obligations by racing the
// installed solvers (z3-new 5.1.0, z3 4.8.12, cvc5 1.0.x).
package smt

import (
	"fmt"
	"sort"
	"strings"
)

// Sort of a term. Everything that is not an integer or a boolean lives in the
// single universe sort V (pointers, slices, maps, structs, strings, floats,
// go/types values, opaque element types).
type Sort string

const (
	Int  Sort = "Int"
	Bool Sort = "Bool"
	V    Sort = "V"
	// Heap maps a pointer to the value it points to.
	Heap Sort = "(Array V V)"
)

func (s Sort) String() string { return string(s) }

// T is a term: SMT-LIB text plus its sort.
type T struct {
	S    string
	Sort Sort
}

func (t T) String() string { return t.S }

var (
	True  = T{"true", Bool}
	False = T{"false", Bool}
)

func IntLit(n int) T {
	if n < 0 {
		return T{fmt.Sprintf("(- %d)", -n), Int}
	}
	return T{fmt.Sprintf("%d", n), Int}
}

func app(sortOf Sort, f string, args ...T) T {
	if len(args) == 0 {
		return T{f, sortOf}
	}
	var b strings.Builder
	b.WriteByte('(')
	b.WriteString(f)
	for _, a := range args {
		b.WriteByte(' ')
		b.WriteString(a.S)
	}
	b.WriteByte(')')
	return T{b.String(), sortOf}
}

// App builds an application of an (already declared) function symbol.
func App(sortOf Sort, f string, args ...T) T {
	if f == "s_at" && len(args) == 2 {
		// reads are pushed through updates at construction time: E-matching cannot
		// relate s[k] and upd(s,i,x)[k] for a k that only occurs under one of them
		if strings.HasPrefix(args[0].S, "(s_upd ") {
			if as := SplitArgs(args[0].S); len(as) == 3 {
				s0, i, x := T{S: as[0], Sort: V}, T{S: as[1], Sort: Int}, T{S: as[2], Sort: V}
				// the element axiom of s_upd is unguarded (a total function of the
				// universe; the engine separately obliges every write to be in bounds)
				return Ite(Eq(args[1], i), x, App(sortOf, "s_at", s0, args[1]))
			}
		}
		if strings.HasPrefix(args[0].S, "(s_sub ") {
			if as := SplitArgs(args[0].S); len(as) == 3 {
				s0, lo := T{S: as[0], Sort: V}, T{S: as[1], Sort: Int}
				if lo.S == "0" {
					return App(sortOf, "s_at", s0, args[1])
				}
				return App(sortOf, "s_at", s0, Add(lo, args[1]))
			}
		}
		if strings.HasPrefix(args[0].S, "(s_app ") {
			if as := SplitArgs(args[0].S); len(as) == 2 {
				s0, x := T{S: as[0], Sort: V}, T{S: as[1], Sort: V}
				return Ite(Eq(args[1], app(Int, "s_len", s0)), x, App(sortOf, "s_at", s0, args[1]))
			}
		}
	}
	if (f == "m_get" || f == "m_has") && len(args) == 2 && strings.HasPrefix(args[0].S, "(m_upd ") {
		// reads are pushed through map updates as well
		if as := SplitArgs(args[0].S); len(as) == 3 {
			m0, k, v := T{S: as[0], Sort: V}, T{S: as[1], Sort: V}, T{S: as[2], Sort: V}
			if f == "m_has" {
				return Or(Eq(args[1], k), App(Bool, "m_has", m0, args[1]))
			}
			return Ite(Eq(args[1], k), v, App(sortOf, "m_get", m0, args[1]))
		}
	}
	return app(sortOf, f, args...)
}

// SplitArgs returns the top-level arguments of an application "(f a b c)".
func SplitArgs(s string) []string {
	if len(s) < 2 || s[0] != '(' || s[len(s)-1] != ')' {
		return nil
	}
	s = s[1 : len(s)-1]
	var out []string
	depth, start := 0, -1
	inBar := false
	for i := 0; i < len(s); i++ {
		c := s[i]
		if c == '|' {
			inBar = !inBar
		}
		if inBar {
			if start < 0 {
				start = i
			}
			continue
		}
		switch c {
		case '(':
			if start < 0 {
				start = i
			}
			depth++
		case ')':
			depth--
		case ' ':
			if depth == 0 && start >= 0 {
				out = append(out, s[start:i])
				start = -1
			}
			continue
		default:
			if start < 0 {
				start = i
			}
		}
	}
	if start >= 0 {
		out = append(out, s[start:])
	}
	if len(out) == 0 {
		return nil
	}
	return out[1:]
}

func Not(a T) T {
	if a.S == "true" {
		return False
	}
	if a.S == "false" {
		return True
	}
	return app(Bool, "not", a)
}

func And(as ...T) T {
	var xs []T
	for _, a := range as {
		if a.S == "true" {
			continue
		}
		if a.S == "false" {
			return False
		}
		xs = append(xs, a)
	}
	if len(xs) == 0 {
		return True
	}
	if len(xs) == 1 {
		return xs[0]
	}
	return app(Bool, "and", xs...)
}

func Or(as ...T) T {
	var xs []T
	for _, a := range as {
		if a.S == "false" {
			continue
		}
		if a.S == "true" {
			return True
		}
		xs = append(xs, a)
	}
	if len(xs) == 0 {
		return False
	}
	if len(xs) == 1 {
		return xs[0]
	}
	return app(Bool, "or", xs...)
}

func Implies(a, b T) T {
	if a.S == "true" {
		return b
	}
	if a.S == "false" || b.S == "true" {
		return True
	}
	return app(Bool, "=>", a, b)
}

func Eq(a, b T) T {
	if a.Sort != b.Sort {
		panic(fmt.Sprintf("smt.Eq: sort mismatch %s:%s vs %s:%s", a.S, a.Sort, b.S, b.Sort))
	}
	if a.S == b.S {
		return True
	}
	return app(Bool, "=", a, b)
}

func Neq(a, b T) T { return Not(Eq(a, b)) }

func Ite(c, a, b T) T {
	if a.Sort != b.Sort {
		panic(fmt.Sprintf("smt.Ite: sort mismatch %s vs %s", a.S, b.S))
	}
	if c.S == "true" {
		return a
	}
	if c.S == "false" {
		return b
	}
	return app(a.Sort, "ite", c, a, b)
}

func Add(a, b T) T { return app(Int, "+", a, b) }
func Sub(a, b T) T { return app(Int, "-", a, b) }
func Mul(a, b T) T { return app(Int, "*", a, b) }
func Lt(a, b T) T  { return app(Bool, "<", a, b) }
func Le(a, b T) T  { return app(Bool, "<=", a, b) }
func Gt(a, b T) T  { return app(Bool, ">", a, b) }
func Ge(a, b T) T  { return app(Bool, ">=", a, b) }
func Neg(a T) T    { return app(Int, "-", a) }

// Bound is a quantified variable.
type Bound struct {
	Name string
	Sort Sort
}

func quant(q string, bs []Bound, body T, pats ...T) T {
	if len(bs) == 0 {
		return body
	}
	var b strings.Builder
	b.WriteString("(" + q + " (")
	for i, v := range bs {
		if i > 0 {
			b.WriteByte(' ')
		}
		fmt.Fprintf(&b, "(%s %s)", v.Name, v.Sort)
	}
	b.WriteString(") ")
	if len(pats) > 0 {
		b.WriteString("(! " + body.S + " :pattern (")
		for i, p := range pats {
			if i > 0 {
				b.WriteByte(' ')
			}
			b.WriteString(p.S)
		}
		b.WriteString("))")
	} else {
		b.WriteString(body.S)
	}
	b.WriteString(")")
	return T{b.String(), Bool}
}

func Forall(bs []Bound, body T, pats ...T) T { return quant("forall", bs, body, pats...) }
func Exists(bs []Bound, body T) T            { return quant("exists", bs, body) }

// Decls collects declarations of constants and functions used by a query.
type Decls struct {
	consts map[string]Sort
	funs   map[string]string // name -> "(args) ret"
	order  []string
}

func NewDecls() *Decls {
	return &Decls{consts: map[string]Sort{}, funs: map[string]string{}}
}

func (d *Decls) Clone() *Decls {
	n := NewDecls()
	for k, v := range d.consts {
		n.consts[k] = v
	}
	for k, v := range d.funs {
		n.funs[k] = v
	}
	n.order = append(n.order, d.order...)
	return n
}

// Const declares (idempotently) a constant and returns it as a term.
func (d *Decls) Const(name string, s Sort) T {
	if old, ok := d.consts[name]; ok {
		if old != s {
			panic("smt: constant " + name + " redeclared with another sort")
		}
		return T{name, s}
	}
	d.consts[name] = s
	d.order = append(d.order, "c:"+name)
	return T{name, s}
}

// Fun declares (idempotently) an uninterpreted function.
func (d *Decls) Fun(name string, args []Sort, ret Sort) {
	var as []string
	for _, a := range args {
		as = append(as, a.String())
	}
	sig := "(" + strings.Join(as, " ") + ") " + ret.String()
	if old, ok := d.funs[name]; ok {
		if old != sig {
			panic("smt: function " + name + " redeclared: " + old + " vs " + sig)
		}
		return
	}
	d.funs[name] = sig
	d.order = append(d.order, "f:"+name)
}

func (d *Decls) HasFun(name string) bool { _, ok := d.funs[name]; return ok }

func (d *Decls) Text() string {
	var b strings.Builder
	for _, k := range d.order {
		name := k[2:]
		if k[0] == 'c' {
			fmt.Fprintf(&b, "(declare-const %s %s)\n", name, d.consts[name])
		} else {
			fmt.Fprintf(&b, "(declare-fun %s %s)\n", name, d.funs[name])
		}
	}
	return b.String()
}

// Ident makes s a legal SMT-LIB simple symbol.
func Ident(s string) string {
	var b strings.Builder
	for _, r := range s {
		switch {
		case r >= 'a' && r <= 'z', r >= 'A' && r <= 'Z', r >= '0' && r <= '9', r == '_', r == '.', r == '$', r == '!':
			b.WriteRune(r)
		default:
			fmt.Fprintf(&b, "_%x_", r)
		}
	}
	return b.String()
}

// SortedKeys is a helper for deterministic iteration.
func SortedKeys[M ~map[string]X, X any](m M) []string {
	ks := make([]string, 0, len(m))
	for k := range m {
		ks = append(ks, k)
	}
	sort.Strings(ks)
	return ks
}
