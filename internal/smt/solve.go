package smt

import (
	"bytes"
	"context"
	"crypto/sha256"
	"encoding/hex"
	"fmt"
	"os"
	"os/exec"
	"path/filepath"
	"regexp"
	"strings"
	"sync"
	"time"
)

// Result of one obligation.
type Result struct {
	Status  string // "unsat" (discharged), "sat" (refuted, model), "unknown", "timeout", "error"
	Backend string
	Millis  int64
	Model   string // raw (get-model) output when Status == "sat"
	File    string // the SMT-LIB file
	Output  string // solver outputs, concatenated (for replay files)
}

// Query is a self-contained satisfiability problem: Status unsat == goal proved.
type Query struct {
	Name    string
	Prelude string // fixed axioms
	Decls   *Decls
	Assumes []T
	Goal    T
	Probe   bool // vacuity probe: short timeout, no model wanted
}

func (q *Query) Text(withModel bool) string {
	var b strings.Builder
	b.WriteString("; obligation: " + q.Name + "\n")
	b.WriteString("(set-option :produce-models true)\n(set-logic ALL)\n")
	b.WriteString(q.Prelude)
	b.WriteString(q.Decls.Text())
	for _, a := range q.Assumes {
		if a.S == "true" {
			continue
		}
		b.WriteString("(assert " + a.S + ")\n")
	}
	b.WriteString("(assert (not " + q.Goal.S + "))\n")
	b.WriteString("(check-sat)\n")
	if withModel {
		b.WriteString("(get-model)\n")
	}
	return b.String()
}

// Runner runs queries with a global bound on concurrent solver processes.
type Runner struct {
	Dir      string        // where .smt2 files are written
	Timeout  time.Duration // per solver per query
	Solvers  []string      // subset of z3-new, z3, cvc5
	sem      chan struct{}
	mu       sync.Mutex
	TotalMs  int64
	NQueries int
	// undecided counts, per obligation name without its path tag: once a clause
	// has gone undecided on many paths (the tree is already failing the check)
	// the remaining paths get a short timeout, so that a broken tree is reported
	// in minutes rather than hours. Nothing is undecided on a tree that passes.
	undecided map[string]int
}

var pathTagRe = regexp.MustCompile(`\[[^\]]*\]|#[0-9.]+$`)

func clauseKey(name string) string { return pathTagRe.ReplaceAllString(name, "") }

func NewRunner(dir string, timeout time.Duration) *Runner {
	os.MkdirAll(dir, 0o755)
	r := &Runner{Dir: dir, Timeout: timeout, sem: make(chan struct{}, 14)}
	for _, s := range []string{"z3-new", "z3", "cvc5"} {
		if _, err := exec.LookPath(s); err == nil {
			r.Solvers = append(r.Solvers, s)
		}
	}
	return r
}

func solverArgs(name, file string, timeout time.Duration) []string {
	secs := int(timeout.Seconds())
	if secs < 1 {
		secs = 1
	}
	switch name {
	case "cvc5":
		return []string{"--lang=smt2", fmt.Sprintf("--tlimit=%d", secs*1000), file}
	default:
		return []string{"-smt2", fmt.Sprintf("-T:%d", secs), file}
	}
}

type one struct {
	solver string
	status string
	out    string
	ms     int64
}

func firstWord(s string) string {
	for _, ln := range strings.Split(s, "\n") {
		ln = strings.TrimSpace(ln)
		if ln == "" || strings.HasPrefix(ln, ";") {
			continue
		}
		return ln
	}
	return ""
}

func (r *Runner) runOne(ctx context.Context, solver, file string) one {
	return r.runOneT(ctx, solver, file, r.Timeout)
}

func (r *Runner) runOneT(ctx context.Context, solver, file string, timeout time.Duration) one {
	r.sem <- struct{}{}
	defer func() { <-r.sem }()
	if ctx.Err() != nil {
		return one{solver: solver, status: "cancelled"}
	}
	start := time.Now()
	cctx, cancel := context.WithTimeout(ctx, timeout+2*time.Second)
	defer cancel()
	cmd := exec.CommandContext(cctx, solver, solverArgs(solver, file, timeout)...)
	var out bytes.Buffer
	cmd.Stdout = &out
	cmd.Stderr = &out
	cmd.Run()
	ms := time.Since(start).Milliseconds()
	st := firstWord(out.String())
	switch st {
	case "unsat", "sat", "unknown":
	case "timeout":
	default:
		if cctx.Err() != nil {
			st = "timeout"
		} else if strings.Contains(out.String(), "timeout") || strings.Contains(out.String(), "interrupted") {
			st = "timeout"
		} else {
			st = "error"
		}
	}
	return one{solver, st, out.String(), ms}
}

// Solve races the solvers on q.
func (r *Runner) Solve(q *Query) (res Result) {
	text := q.Text(false)
	h := sha256.Sum256([]byte(text))
	file := filepath.Join(r.Dir, Ident(q.Name)+"-"+hex.EncodeToString(h[:4])+".smt2")
	if len(filepath.Base(file)) > 200 {
		file = filepath.Join(r.Dir, Ident(q.Name)[:150]+"-"+hex.EncodeToString(h[:4])+".smt2")
	}
	if err := os.WriteFile(file, []byte(text), 0o644); err != nil {
		return Result{Status: "error", Output: err.Error()}
	}
	ctx, cancel := context.WithCancel(context.Background())
	defer cancel()
	ch := make(chan one, len(r.Solvers))
	timeout := r.Timeout
	if q.Probe {
		timeout = 2 * time.Second
	}
	ck := clauseKey(q.Name)
	r.mu.Lock()
	if r.undecided[ck] >= 8 && timeout > 3*time.Second {
		timeout = 3 * time.Second
	}
	r.mu.Unlock()
	defer func() {
		if !q.Probe && res.Status != "unsat" && res.Status != "sat" {
			r.mu.Lock()
			if r.undecided == nil {
				r.undecided = map[string]int{}
			}
			r.undecided[ck]++
			r.mu.Unlock()
		}
	}()
	for _, s := range r.Solvers {
		go func(s string) { ch <- r.runOneT(ctx, s, file, timeout) }(s)
	}
	res = Result{Status: "unknown", File: file}
	var outs []string
	start := time.Now()
	for range r.Solvers {
		o := <-ch
		outs = append(outs, fmt.Sprintf("[%s %dms] %s", o.solver, o.ms, strings.TrimSpace(o.out)))
		if o.status == "unsat" || o.status == "sat" {
			res.Status, res.Backend, res.Millis = o.status, o.solver, o.ms
			cancel()
			break
		}
		if o.status == "timeout" && res.Status == "unknown" {
			res.Status = "timeout"
		}
		if o.status == "error" && res.Backend == "" {
			// keep looking; remember
		}
	}
	if res.Backend == "" {
		res.Millis = time.Since(start).Milliseconds()
	}
	res.Output = strings.Join(outs, "\n")
	if res.Status == "sat" && !q.Probe {
		// get a model from a z3
		mfile := strings.TrimSuffix(file, ".smt2") + ".model.smt2"
		os.WriteFile(mfile, []byte(q.Text(true)), 0o644)
		for _, s := range []string{"z3-new", "z3"} {
			if _, err := exec.LookPath(s); err != nil {
				continue
			}
			o := r.runOne(context.Background(), s, mfile)
			if o.status == "sat" {
				res.Model = o.out
				break
			}
		}
	}
	r.mu.Lock()
	r.TotalMs += res.Millis
	r.NQueries++
	r.mu.Unlock()
	return res
}

// SolveAll discharges the queries in parallel, results in input order.
func (r *Runner) SolveAll(qs []*Query) []Result {
	out := make([]Result, len(qs))
	var wg sync.WaitGroup
	lim := make(chan struct{}, 6)
	for i := range qs {
		wg.Add(1)
		go func(i int) {
			defer wg.Done()
			lim <- struct{}{}
			defer func() { <-lim }()
			out[i] = r.Solve(qs[i])
		}(i)
	}
	wg.Wait()
	return out
}
