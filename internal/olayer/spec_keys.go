package olayer

import (
	"fmt"
	"go/types"

	"gvc/internal/geval"
	"gvc/internal/smt"
	"gvc/internal/spec"
	"gvc/internal/vc"
)

// Sorted key enumerations (maps compared and hashed through sorted keys).
//
//	keysOf(m, X)              X lists the keys of m, each exactly once
//	sortedKeysOf(K, m, X)     keysOf(m, X) and X is non-decreasing under CmpC(K)
//	SK(K, m)                  THE sorted enumeration of m's keys
//
// Lemma L-sortedkeys (trusted; Mathlib: Finset.sort, List.eq_of_perm_of_sorted):
// when K is a value type (comparable and reference-free, so CmpC(K,x,y) == 0
// exactly when x == y), the sorted enumeration exists, is strictly increasing,
// is unique, and depends on the key set only. The lemma is stated for value
// key types only; for other key types SK stays uninterpreted.
func registerKeySpecs(c *Ctx) {
	e := c.E
	e.Specs["keysOf"] = func(e *vc.Engine, env *vc.SpecEnv, args []spec.Expr) (vc.Val, error) {
		if len(args) != 2 {
			return vc.Val{}, fmt.Errorf("spec: keysOf(m, X)")
		}
		m, err := e.EvalSpec(env, args[0])
		if err != nil {
			return vc.Val{}, err
		}
		x, err := e.EvalSpec(env, args[1])
		if err != nil {
			return vc.Val{}, err
		}
		c.declKeysOf()
		return vc.Val{T: smt.App(smt.Bool, "keysOf", m.T, x.T), Ty: types.Typ[types.Bool]}, nil
	}
	e.Specs["sortedKeysOf"] = func(e *vc.Engine, env *vc.SpecEnv, args []spec.Expr) (vc.Val, error) {
		if len(args) != 3 {
			return vc.Val{}, fmt.Errorf("spec: sortedKeysOf(K, m, X)")
		}
		kv, err := e.EvalSpec(env, args[0])
		if err != nil {
			return vc.Val{}, err
		}
		k, err := c.SymTypeOf(kv)
		if err != nil {
			return vc.Val{}, err
		}
		m, err := e.EvalSpec(env, args[1])
		if err != nil {
			return vc.Val{}, err
		}
		x, err := e.EvalSpec(env, args[2])
		if err != nil {
			return vc.Val{}, err
		}
		name, err := c.declSortedKeysOf(env, k)
		if err != nil {
			return vc.Val{}, err
		}
		return vc.Val{T: smt.App(smt.Bool, name, m.T, x.T), Ty: types.Typ[types.Bool]}, nil
	}
}

func (c *Ctx) declKeysOf() {
	if c.E.Decls.HasFun("keysOf") {
		return
	}
	c.E.Decls.Fun("keysOf", []smt.Sort{smt.V, smt.V}, smt.Bool)
	m, x := smt.T{S: "m", Sort: smt.V}, smt.T{S: "X", Sort: smt.V}
	j := smt.T{S: "j?k", Sort: smt.Int}
	n := smt.App(smt.Int, "s_len", x)
	at := func(i smt.T) smt.T { return smt.App(smt.V, "s_at", x, i) }
	c.E.DeclDistinct()
	def := smt.And(
		smt.Eq(n, smt.App(smt.Int, "m_card", m)),
		smt.Forall([]smt.Bound{{Name: j.S, Sort: smt.Int}}, smt.Implies(smt.And(smt.Le(smt.IntLit(0), j), smt.Lt(j, n)), smt.App(smt.Bool, "m_has", m, at(j)))),
		smt.App(smt.Bool, "distinct_elems", x))
	ko := smt.App(smt.Bool, "keysOf", m, x)
	c.E.Axioms = append(c.E.Axioms, smt.Forall([]smt.Bound{{Name: "m", Sort: smt.V}, {Name: "X", Sort: smt.V}}, smt.Eq(ko, def), ko))
}

func (c *Ctx) keyID(k *geval.SymType) string { return fmt.Sprintf("%d_%v", k.R().ID, k.IsView()) }

// declSortedKeysOf declares sortedKeysOf!K and, for value key types, SK!K with
// lemma L-sortedkeys.
func (c *Ctx) declSortedKeysOf(env *vc.SpecEnv, k *geval.SymType) (string, error) {
	name := "sortedKeysOf!" + c.keyID(k)
	if c.E.Decls.HasFun(name) {
		return name, nil
	}
	c.declKeysOf()
	c.E.Decls.Fun(name, []smt.Sort{smt.V, smt.V}, smt.Bool)
	m, x := smt.T{S: "m", Sort: smt.V}, smt.T{S: "X", Sort: smt.V}
	a, b := smt.T{S: "a?s", Sort: smt.Int}, smt.T{S: "b?s", Sort: smt.Int}
	n := smt.App(smt.Int, "s_len", x)
	el := func(s, i smt.T) smt.T { return c.unboxAs(k, smt.App(smt.V, "s_at", s, i)) }
	cba, err := c.CmpC(env, k, el(x, b), el(x, a), 1)
	if err != nil {
		return "", err
	}
	def := smt.And(smt.App(smt.Bool, "keysOf", m, x),
		smt.Forall([]smt.Bound{{Name: a.S, Sort: smt.Int}, {Name: b.S, Sort: smt.Int}}, smt.Implies(smt.And(smt.Le(smt.IntLit(0), a), smt.Lt(a, b), smt.Lt(b, n)), smt.Ge(cba, smt.IntLit(0)))))
	so := smt.App(smt.Bool, name, m, x)
	c.E.Axioms = append(c.E.Axioms, smt.Forall([]smt.Bound{{Name: "m", Sort: smt.V}, {Name: "X", Sort: smt.V}}, smt.Eq(so, def), so))
	c.declSK(env, k)
	return name, nil
}

// SKTerm: SK!K(m).
func (c *Ctx) SKTerm(env *vc.SpecEnv, k *geval.SymType, m smt.T) smt.T {
	c.declSK(env, k)
	return smt.App(smt.V, "SK!"+c.keyID(k), m)
}

func (c *Ctx) declSK(env *vc.SpecEnv, k *geval.SymType) {
	sk := "SK!" + c.keyID(k)
	if c.E.Decls.HasFun(sk) {
		return
	}
	c.E.Decls.Fun(sk, []smt.Sort{smt.V}, smt.V)
	if c.flatKnown(k) != geval.Yes {
		return // no lemma for key types that may hold references
	}
	idx := "SKidx!" + c.keyID(k)
	c.E.Decls.Fun(idx, []smt.Sort{smt.V, smt.V}, smt.Int)
	m, m2, x, kk := smt.T{S: "m", Sort: smt.V}, smt.T{S: "m2", Sort: smt.V}, smt.T{S: "X", Sort: smt.V}, smt.T{S: "k", Sort: smt.V}
	j, a, b := smt.T{S: "j?q", Sort: smt.Int}, smt.T{S: "a?q", Sort: smt.Int}, smt.T{S: "b?q", Sort: smt.Int}
	S := smt.App(smt.V, sk, m)
	S2 := smt.App(smt.V, sk, m2)
	card := smt.App(smt.Int, "m_card", m)
	at := func(s, i smt.T) smt.T { return smt.App(smt.V, "s_at", s, i) }
	el := func(s, i smt.T) smt.T { return c.unboxAs(k, at(s, i)) }
	mb := []smt.Bound{{Name: "m", Sort: smt.V}}
	// existence: length, membership, coverage (with an explicit position function), strictly increasing
	c.E.Axioms = append(c.E.Axioms, smt.Forall(mb, smt.And(smt.Eq(smt.App(smt.Int, "s_len", S), card), smt.Neq(S, vc.NilV)), S))
	c.E.Axioms = append(c.E.Axioms, smt.Forall(append(mb, smt.Bound{Name: j.S, Sort: smt.Int}),
		smt.Implies(smt.And(smt.Le(smt.IntLit(0), j), smt.Lt(j, card)), smt.App(smt.Bool, "m_has", m, at(S, j))), at(S, j)))
	pos := smt.App(smt.Int, idx, m, kk)
	c.E.Axioms = append(c.E.Axioms, smt.Forall(append(mb, smt.Bound{Name: "k", Sort: smt.V}),
		smt.Implies(smt.App(smt.Bool, "m_has", m, kk), smt.And(smt.Le(smt.IntLit(0), pos), smt.Lt(pos, card), smt.Eq(at(S, pos), kk))), smt.App(smt.Bool, "m_has", m, kk), S))
	cab, err := c.CmpC(env, k, el(S, a), el(S, b), 1)
	if err == nil {
		c.E.Axioms = append(c.E.Axioms, smt.Forall(append(mb, smt.Bound{Name: a.S, Sort: smt.Int}, smt.Bound{Name: b.S, Sort: smt.Int}),
			smt.Implies(smt.And(smt.Le(smt.IntLit(0), a), smt.Lt(a, b), smt.Lt(b, card)), smt.Lt(cab, smt.IntLit(0))), at(S, a), at(S, b)))
	}
	// uniqueness: any sorted enumeration is SK
	so := smt.App(smt.Bool, "sortedKeysOf!"+c.keyID(k), m, x)
	c.E.Axioms = append(c.E.Axioms, smt.Forall([]smt.Bound{{Name: "m", Sort: smt.V}, {Name: "X", Sort: smt.V}},
		smt.Implies(so, smt.Forall([]smt.Bound{{Name: j.S, Sort: smt.Int}}, smt.Implies(smt.And(smt.Le(smt.IntLit(0), j), smt.Lt(j, smt.App(smt.Int, "s_len", x))), smt.Eq(at(x, j), at(S, j))), at(x, j))), so))
	// a function of the key set
	sameKeys := smt.And(smt.Eq(card, smt.App(smt.Int, "m_card", m2)),
		smt.Forall([]smt.Bound{{Name: "k", Sort: smt.V}}, smt.Implies(smt.App(smt.Bool, "m_has", m, kk), smt.App(smt.Bool, "m_has", m2, kk)), smt.App(smt.Bool, "m_has", m, kk)))
	c.E.Axioms = append(c.E.Axioms, smt.Forall([]smt.Bound{{Name: "m", Sort: smt.V}, {Name: "m2", Sort: smt.V}},
		smt.Implies(sameKeys, smt.Forall([]smt.Bound{{Name: j.S, Sort: smt.Int}}, smt.Implies(smt.And(smt.Le(smt.IntLit(0), j), smt.Lt(j, card)), smt.Eq(at(S, j), at(S2, j))), at(S, j))), S, S2))
}
