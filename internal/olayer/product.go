package olayer

import (
	"bytes"
	"fmt"
	"go/ast"
	"go/parser"
	"go/printer"
	"go/token"
	"go/types"
	"strings"
)

// Relational obligations (C04: Equal values hash alike) are decided on a
// product program built mechanically from the emitted function: two renamed
// copies of every statement run in lockstep (suffixes ᴬ and ᴮ, written @1 and
// @2 in contracts), with
//
//   - Ħsame(cᴬ == cᴮ) before every branch: both copies take the same branch;
//   - one loop for both copies: Ħsame(cᴮ) at the top of the body, Ħsame(!cᴮ)
//     after the loop (three-clause loops); equal lengths / equal strings
//     obliged before range loops, elements bound pairwise;
//   - return e  ==>  rᴬ, rᴮ = eᴬ, eᴮ; return.
//
// Ħsame's contract is "requires b": a lockstep failure is a failed obligation,
// never an assumption. Statements outside this shape (switch, break, goto,
// range over maps or channels, closures) make the construction fail, which is
// reported as the failed obligation contract-applies.

const (
	SufA = "ᴬ"
	SufB = "ᴮ"
)

// relText translates @1/@2 of contract clauses to the identifier suffixes.
func relText(s string) string {
	return strings.NewReplacer("@1", SufA, "@2", SufB).Replace(s)
}

type prodBuilder struct {
	in    *Instance
	fd    *ast.FuncDecl
	info  *types.Info
	fset  *token.FileSet
	tmp   int
	resA  []string
	resB  []string
	err   error
	depth int
}

func (p *prodBuilder) fail(n ast.Node, format string, a ...interface{}) {
	if p.err == nil {
		p.err = fmt.Errorf("product program: "+format+" (%s)", append(a, p.fset.Position(n.Pos()))...)
	}
}

func (p *prodBuilder) isLocal(o types.Object) bool {
	v, ok := o.(*types.Var)
	if !ok || v.IsField() {
		return false
	}
	return v.Pos() >= p.fd.Pos() && v.Pos() < p.fd.End()
}

// ren prints a node with every local variable renamed by the suffix.
func (p *prodBuilder) ren(n ast.Node, suf string) string {
	var touched []*ast.Ident
	ast.Inspect(n, func(x ast.Node) bool {
		if id, ok := x.(*ast.Ident); ok && id.Name != "_" {
			o := p.info.Uses[id]
			if o == nil {
				o = p.info.Defs[id]
			}
			if o != nil && p.isLocal(o) {
				touched = append(touched, id)
			}
		}
		if _, ok := x.(*ast.FuncLit); ok {
			p.fail(x, "function literal")
			return false
		}
		return true
	})
	for _, id := range touched {
		id.Name += suf
	}
	var b bytes.Buffer
	printer.Fprint(&b, p.fset, n)
	for _, id := range touched {
		id.Name = strings.TrimSuffix(id.Name, suf)
	}
	return b.String()
}

func (p *prodBuilder) both(n ast.Node) string {
	return p.ren(n, SufA) + "\n" + p.ren(n, SufB) + "\n"
}

func (p *prodBuilder) fresh(base string) string {
	p.tmp++
	return fmt.Sprintf("%s%s%d", Mark, base, p.tmp)
}

func hasBreak(b *ast.BlockStmt) bool {
	found := false
	ast.Inspect(b, func(n ast.Node) bool {
		switch s := n.(type) {
		case *ast.BranchStmt:
			if s.Tok == token.BREAK || s.Tok == token.GOTO {
				found = true
			}
		case *ast.ForStmt, *ast.RangeStmt, *ast.SwitchStmt, *ast.SelectStmt, *ast.FuncLit:
			if n != ast.Node(b) {
				// a break inside a nested loop belongs to that loop; it is checked when the nested loop is built
				return false
			}
		}
		return true
	})
	return found
}

func (p *prodBuilder) block(list []ast.Stmt) string {
	var b strings.Builder
	for _, s := range list {
		b.WriteString(p.stmt(s))
	}
	return b.String()
}

func (p *prodBuilder) stmt(s ast.Stmt) string {
	switch s := s.(type) {
	case *ast.AssignStmt, *ast.DeclStmt, *ast.IncDecStmt, *ast.ExprStmt, *ast.EmptyStmt:
		return p.both(s)
	case *ast.BlockStmt:
		return "{\n" + p.block(s.List) + "}\n"
	case *ast.ReturnStmt:
		if len(s.Results) == 0 {
			return "return\n"
		}
		if len(s.Results) != len(p.resA) {
			p.fail(s, "return of a multi-valued call")
			return ""
		}
		var lhs, rhs []string
		for i, r := range s.Results {
			lhs = append(lhs, p.resA[i])
			rhs = append(rhs, p.ren(r, SufA))
		}
		for i, r := range s.Results {
			lhs = append(lhs, p.resB[i])
			rhs = append(rhs, p.ren(r, SufB))
		}
		return strings.Join(lhs, ", ") + " = " + strings.Join(rhs, ", ") + "\nreturn\n"
	case *ast.IfStmt:
		var b strings.Builder
		b.WriteString("{\n")
		if s.Init != nil {
			b.WriteString(p.both(s.Init))
		}
		ca, cb := p.ren(s.Cond, SufA), p.ren(s.Cond, SufB)
		fmt.Fprintf(&b, "%ssame((%s) == (%s))\n", Mark, ca, cb)
		fmt.Fprintf(&b, "if %s {\n%s}", ca, p.block(s.Body.List))
		if s.Else != nil {
			b.WriteString(" else {\n" + p.stmt(s.Else) + "}")
		}
		b.WriteString("\n}\n")
		return b.String()
	case *ast.ForStmt:
		if hasBreak(s.Body) {
			p.fail(s, "loop with break")
			return ""
		}
		// both initialisations in one statement: the loop keeps its three-clause shape
		init := ""
		if s.Init != nil {
			as, ok := s.Init.(*ast.AssignStmt)
			if !ok || as.Tok != token.DEFINE || len(as.Lhs) != 1 || len(as.Rhs) != 1 {
				p.fail(s, "loop initialisation is not 'i := e'")
				return ""
			}
			init = fmt.Sprintf("%s, %s := %s, %s", p.ren(as.Lhs[0], SufA), p.ren(as.Lhs[0], SufB), p.ren(as.Rhs[0], SufA), p.ren(as.Rhs[0], SufB))
		}
		if s.Cond == nil {
			p.fail(s, "loop without condition")
			return ""
		}
		ca, cb := p.ren(s.Cond, SufA), p.ren(s.Cond, SufB)
		post := ""
		if s.Post != nil {
			inc, ok := s.Post.(*ast.IncDecStmt)
			if !ok {
				p.fail(s, "loop post statement is not i++ / i--")
				return ""
			}
			op := "+"
			if inc.Tok == token.DEC {
				op = "-"
			}
			xa, xb := p.ren(inc.X, SufA), p.ren(inc.X, SufB)
			post = fmt.Sprintf("%s, %s = %s %s 1, %s %s 1", xa, xb, xa, op, xb, op)
		}
		return p.forWithExit(s, init, ca, cb, post)
	case *ast.RangeStmt:
		if hasBreak(s.Body) {
			p.fail(s, "loop with break")
			return ""
		}
		t := p.info.TypeOf(s.X)
		if t == nil {
			p.fail(s, "untyped range")
			return ""
		}
		xa, xb := p.fresh("x"), p.fresh("x")
		var b strings.Builder
		b.WriteString("{\n")
		fmt.Fprintf(&b, "%s := %s\n%s := %s\n", xa, p.ren(s.X, SufA), xb, p.ren(s.X, SufB))
		key, val := "", ""
		if id, ok := s.Key.(*ast.Ident); ok && id.Name != "_" {
			key = id.Name
		}
		if id, ok := s.Value.(*ast.Ident); ok && id.Name != "_" {
			val = id.Name
		}
		if (s.Key != nil && key == "" && !isBlank(s.Key)) || (s.Value != nil && val == "" && !isBlank(s.Value)) || s.Tok == token.ASSIGN {
			p.fail(s, "range variables are not fresh identifiers")
			return ""
		}
		switch u := t.Underlying().(type) {
		case *types.Slice, *types.Array:
			k := p.fresh("k")
			fmt.Fprintf(&b, "%ssame(len(%s) == len(%s))\n", Mark, xa, xb)
			fmt.Fprintf(&b, "for %s := range %s {\n", k, xa)
			if key != "" {
				fmt.Fprintf(&b, "%s%s, %s%s := %s, %s\n_, _ = %s%s, %s%s\n", key, SufA, key, SufB, k, k, key, SufA, key, SufB)
			}
			if val != "" {
				fmt.Fprintf(&b, "%s%s, %s%s := %s[%s], %s[%s]\n_, _ = %s%s, %s%s\n", val, SufA, val, SufB, xa, k, xb, k, val, SufA, val, SufB)
			}
			b.WriteString(p.block(s.Body.List))
			b.WriteString("}\n")
		case *types.Basic:
			if u.Info()&types.IsString == 0 {
				p.fail(s, "range over %s", t)
				return ""
			}
			// equal strings iterate alike: one loop, both copies see the same (offset, rune)
			k, c := p.fresh("k"), p.fresh("c")
			fmt.Fprintf(&b, "%ssame(%s == %s)\n", Mark, xa, xb)
			fmt.Fprintf(&b, "for %s, %s := range %s {\n_, _ = %s, %s\n", k, c, xa, k, c)
			if key != "" {
				fmt.Fprintf(&b, "%s%s, %s%s := %s, %s\n_, _ = %s%s, %s%s\n", key, SufA, key, SufB, k, k, key, SufA, key, SufB)
			}
			if val != "" {
				fmt.Fprintf(&b, "%s%s, %s%s := %s, %s\n_, _ = %s%s, %s%s\n", val, SufA, val, SufB, c, c, val, SufA, val, SufB)
			}
			b.WriteString(p.block(s.Body.List))
			b.WriteString("}\n")
		default:
			p.fail(s, "range over %s (iteration order is not a function of the value)", t)
			return ""
		}
		b.WriteString("}\n")
		return b.String()
	}
	p.fail(s, "statement %T", s)
	return ""
}

func isBlank(e ast.Expr) bool {
	id, ok := e.(*ast.Ident)
	return ok && id.Name == "_"
}

// forWithExit: "for init; cA; post { Ħsame(cB); body }" followed, inside the
// scope of the loop variables, by Ħsame(!cB). The loop variables are declared
// before the loop for that purpose.
func (p *prodBuilder) forWithExit(s *ast.ForStmt, init, ca, cb, post string) string {
	var b strings.Builder
	b.WriteString("{\n")
	if init != "" {
		b.WriteString(init + "\n")
	}
	fmt.Fprintf(&b, "for ; %s; %s {\n%ssame(%s)\n%s}\n", ca, post, Mark, cb, p.block(s.Body.List))
	fmt.Fprintf(&b, "%ssame(!(%s))\n", Mark, cb)
	b.WriteString("}\n")
	return b.String()
}

// BuildProduct appends the product function of the function this path defines
// (or of the wrapper) to the schematic program and re-checks it.
func (in *Instance) BuildProduct() error {
	var fd *ast.FuncDecl
	for _, d := range in.File.Decls {
		if f, ok := d.(*ast.FuncDecl); ok && f.Body != nil {
			if fd != nil {
				return fmt.Errorf("product program: the path defines more than one function")
			}
			fd = f
		}
	}
	if fd == nil {
		return fmt.Errorf("product program: the path defines no function")
	}
	p := &prodBuilder{in: in, fd: fd, info: in.Info, fset: in.Fset}
	var ps []string
	for _, suf := range []string{SufA, SufB} {
		for _, fl := range fd.Type.Params.List {
			for _, n := range fl.Names {
				ps = append(ps, n.Name+suf+" "+p.ren(fl.Type, ""))
			}
		}
	}
	var rs []string
	if fd.Type.Results != nil {
		i := 0
		for _, fl := range fd.Type.Results.List {
			names := fl.Names
			if len(names) == 0 {
				names = []*ast.Ident{{Name: fmt.Sprintf("%sres%d", Mark, i)}}
			}
			for _, n := range names {
				p.resA = append(p.resA, n.Name+SufA)
				p.resB = append(p.resB, n.Name+SufB)
				i++
			}
		}
		i = 0
		for _, suf := range []string{SufA, SufB} {
			for _, fl := range fd.Type.Results.List {
				names := fl.Names
				if len(names) == 0 {
					names = []*ast.Ident{{Name: fmt.Sprintf("%sres%d", Mark, i)}}
				}
				for _, n := range names {
					rs = append(rs, n.Name+suf+" "+p.ren(fl.Type, ""))
				}
				i++
			}
			i = 0
		}
	}
	body := p.block(fd.Body.List)
	if p.err != nil {
		return p.err
	}
	in.RelFunc = Mark + "rel_" + fd.Name.Name
	in.RelOf = fd.Name.Name
	text := fmt.Sprintf("\nfunc %ssame(b bool)\n\nfunc %s(%s) (%s) {\n%sreturn\n}\n", Mark, in.RelFunc, strings.Join(ps, ", "), strings.Join(rs, ", "), body)
	in.Src += text
	in.Fset = token.NewFileSet()
	f, err := parser.ParseFile(in.Fset, "emitted.go", in.Src, parser.SkipObjectResolution)
	if err != nil {
		return fmt.Errorf("product program does not parse: %v\n%s", err, text)
	}
	in.File = f
	in.Info = &types.Info{Types: map[ast.Expr]types.TypeAndValue{}, Defs: map[*ast.Ident]types.Object{}, Uses: map[*ast.Ident]types.Object{},
		Selections: map[*ast.SelectorExpr]*types.Selection{}, Implicits: map[ast.Node]types.Object{}, Scopes: map[ast.Node]*types.Scope{}}
	var terrs []string
	conf := types.Config{Importer: in.B.imp, Error: func(err error) { terrs = append(terrs, cleanTypeErr(err.Error())) }}
	in.Pkg, _ = conf.Check(Mark+"p", in.Fset, []*ast.File{f}, in.Info)
	if len(terrs) > 0 {
		return fmt.Errorf("product program does not type-check: %s\n%s", strings.Join(terrs, "; "), text)
	}
	return nil
}

// definesRel: the helper this path defines belongs to a generator function
// whose contract has relational clauses.
func (in *Instance) definesRel() bool {
	defined := map[string]bool{}
	if in.File != nil {
		for _, d := range in.File.Decls {
			if f, ok := d.(*ast.FuncDecl); ok && f.Body != nil {
				defined[f.Name.Name] = true
			}
		}
	}
	for n, h := range in.Helpers {
		if !defined[n] {
			continue
		}
		fam, _, err := in.B.Family(h.Plugin, len(h.Typs), in.kind0(h.Typs), sameTypes(h.Typs))
		if err == nil && len(fam.Attrs["o-rel-ensures"]) > 0 {
			return true
		}
	}
	return false
}
