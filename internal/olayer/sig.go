package olayer

import (
	"fmt"
	"regexp"
	"strconv"
	"strings"

	"gvc/internal/contract"
	"gvc/internal/geval"
)

// SigTable resolves "the function plugin P emits for the type list ts": which
// generator function emits it (attribute serves) and with which signature
// (attribute o-sig), so that callers can be checked against it.
type SigTable map[string]*contract.Func

// Family finds the generator function contract serving a request.
//
//	serves: <plugin> len=<n> <param>=typs[<i>] | <param>=typs
func (b *Builder) Family(plugin string, n int, kinds []geval.Kind, same ...bool) (*contract.Func, map[string]string, error) {
	kind0, ekind := geval.KUnknown, geval.KUnknown
	if len(kinds) > 0 {
		kind0 = kinds[0]
	}
	if len(kinds) > n && n > 0 {
		ekind = kinds[n]
		kinds = kinds[:n]
	}
	var keys []string
	for k := range b.Contracts.Funcs {
		keys = append(keys, k)
	}
	sortStr(keys)
	for _, k := range keys {
		c := b.Contracts.Funcs[k]
		for _, s := range c.Attrs["serves"] {
			ws := strings.Fields(s)
			if len(ws) == 0 || ws[0] != plugin {
				continue
			}
			bind := map[string]string{}
			ok := true
			for _, w := range ws[1:] {
				if w == "same" || w == "notsame" {
					// the request's first two types are (not) the same type
					if len(same) == 0 || same[0] != (w == "same") {
						ok = false
					}
					continue
				}
				kv := strings.SplitN(w, "=", 2)
				if len(kv) != 2 {
					continue
				}
				if kv[0] == "len" {
					m, _ := strconv.Atoi(kv[1])
					if m != n {
						ok = false
					}
					continue
				}
				if kv[0] == "ekind" {
					// kind of the element type of the request's first type
					if ekind.String() != kv[1] {
						ok = false
					}
					continue
				}
				if kv[0] == "kind1" {
					if len(kinds) < 2 || kinds[1].String() != kv[1] {
						ok = false
					}
					continue
				}
				if kv[0] == "kind" {
					// the generator function serves requests whose first type has this kind
					if kind0.String() != kv[1] {
						ok = false
					}
					continue
				}
				bind[kv[0]] = kv[1]
			}
			if ok {
				return c, bind, nil
			}
		}
	}
	return nil, nil, fmt.Errorf("no generator function serves plugin %s with %d types (attribute serves)", plugin, n)
}

func sortStr(s []string) {
	for i := 1; i < len(s); i++ {
		for j := i; j > 0 && s[j] < s[j-1]; j-- {
			s[j], s[j-1] = s[j-1], s[j]
		}
	}
}

// BindRequest binds the generator function's parameters to a request's types.
func BindRequest(bind map[string]string, typs []*geval.SymType) (map[string]geval.Value, error) {
	out := map[string]geval.Value{}
	for name, src := range bind {
		if src == "typs" {
			sv := &geval.SliceVal{}
			for _, t := range typs {
				sv.Elems = append(sv.Elems, t)
			}
			out[name] = sv
			continue
		}
		if strings.HasPrefix(src, "typs[") && strings.HasSuffix(src, "]") {
			i, err := strconv.Atoi(src[5 : len(src)-1])
			if err != nil || i < 0 || i >= len(typs) {
				return nil, fmt.Errorf("serves binding %s=%s out of range", name, src)
			}
			out[name] = typs[i]
			continue
		}
		return nil, fmt.Errorf("bad serves binding %s=%s", name, src)
	}
	return out, nil
}

// Render gives the signature text "(params) results" of the helper that
// plugin emits for typs, over the instance's prelude types.
func (st SigTable) Render(in *Instance, plugin string, typs []*geval.SymType) (string, error) {
	c, bind, err := in.B.Family(plugin, len(typs), in.kind0(typs), sameTypes(typs))
	if err != nil {
		return "", err
	}
	args, err := BindRequest(bind, typs)
	if err != nil {
		return "", err
	}
	sigs := in.pickGuarded(c.Attrs["o-sig"], args, nil)
	if len(sigs) != 1 {
		return "", fmt.Errorf("contract of %s has %d applicable o-sig attributes for this request (want 1)", c.Key, len(sigs))
	}
	return in.SubstTypes(sigs[0], args)
}

var projRe = regexp.MustCompile(`^(param|result)(\d)$`)

// SubstTypes replaces $-references to generator-level types by type expressions.
//
//	$name   $name[i]   $elem(ref)   $key(ref)   $under(ref)
func (in *Instance) SubstTypes(s string, args map[string]geval.Value) (string, error) {
	var b strings.Builder
	for i := 0; i < len(s); i++ {
		if s[i] != '$' {
			b.WriteByte(s[i])
			continue
		}
		t, n, err := in.parseTypeRef(s[i+1:], args)
		if err != nil {
			return "", err
		}
		b.WriteString(in.TypeExpr(t))
		i += n
	}
	return b.String(), nil
}

// ResolveTypeRef evaluates a type reference such as elem(typs[0]).
func (in *Instance) ResolveTypeRef(s string, args map[string]geval.Value) (*geval.SymType, error) {
	t, n, err := in.parseTypeRef(s, args)
	if err != nil {
		return nil, err
	}
	if n != len(s) {
		return nil, fmt.Errorf("trailing text in type reference %q", s)
	}
	return t, nil
}

func (in *Instance) parseTypeRef(s string, args map[string]geval.Value) (*geval.SymType, int, error) {
	j := 0
	for j < len(s) && (s[j] == '_' || s[j] >= 'a' && s[j] <= 'z' || s[j] >= 'A' && s[j] <= 'Z' || s[j] >= '0' && s[j] <= '9') {
		j++
	}
	name := s[:j]
	isProj := name == "elem" || name == "key" || name == "under" || name == "ptr"
	if m := projRe.FindStringSubmatch(name); m != nil {
		isProj = true
	}
	if j < len(s) && s[j] == '(' && isProj {
		inner, n, err := in.parseTypeRef(s[j+1:], args)
		if err != nil {
			return nil, 0, err
		}
		end := j + 1 + n
		if end >= len(s) || s[end] != ')' {
			return nil, 0, fmt.Errorf("missing ) in type reference %q", s)
		}
		f := in.fact(inner)
		switch name {
		case "elem":
			return in.comp(f.Elem, inner, "Elem"), end + 1, nil
		case "key":
			return in.comp(f.KeyT, inner, "Key"), end + 1, nil
		case "under":
			if inner.IsView() {
				return inner, end + 1, nil
			}
			return &geval.SymType{ID: inner.ID, Desc: inner.Desc, Root: inner}, end + 1, nil
		}
		if m := projRe.FindStringSubmatch(name); m != nil {
			idx, _ := strconv.Atoi(m[2])
			tup := f.Params
			if m[1] == "result" {
				tup = f.Results
			}
			if tup == nil || idx >= len(tup.Vars) {
				return nil, 0, fmt.Errorf("type reference %s(%s): the signature has no such component on this path", name, inner)
			}
			return tup.Vars[idx].Type, end + 1, nil
		}
	}
	v, ok := args[name]
	if !ok {
		return nil, 0, fmt.Errorf("type reference to unknown generator-level name %q", name)
	}
	if j < len(s) && s[j] == '[' {
		k := strings.IndexByte(s[j:], ']')
		if k < 0 {
			return nil, 0, fmt.Errorf("missing ] in %q", s)
		}
		idx, err := strconv.Atoi(s[j+1 : j+k])
		if err != nil {
			return nil, 0, err
		}
		sv, ok := v.(*geval.SliceVal)
		if !ok || idx >= len(sv.Elems) {
			return nil, 0, fmt.Errorf("type reference %s[%d] out of range", name, idx)
		}
		t, ok := sv.Elems[idx].(*geval.SymType)
		if !ok {
			return nil, 0, fmt.Errorf("%s[%d] is not a type", name, idx)
		}
		return t, j + k + 1, nil
	}
	t, ok := v.(*geval.SymType)
	if !ok {
		return nil, 0, fmt.Errorf("%s is not a type (is %T)", name, v)
	}
	return t, j, nil
}

// kind0: the kind of the first type of a request (for generator functions that serve one kind only).
func (in *Instance) kind0(typs []*geval.SymType) []geval.Kind {
	var ks []geval.Kind
	for _, t := range typs {
		k := geval.KUnknown
		if f := in.fact(t); f != nil {
			k = f.Kind
		}
		ks = append(ks, k)
	}
	// appended: the kind of the first type's element type (for "ekind=")
	ek := geval.KUnknown
	if len(typs) > 0 {
		if f := in.fact(typs[0]); f != nil && f.Elem != nil {
			if ef := in.fact(f.Elem); ef != nil {
				ek = ef.Kind
			}
		}
	}
	return append(ks, ek)
}

func sameTypes(typs []*geval.SymType) bool {
	return len(typs) >= 2 && typs[0].R() == typs[1].R() && typs[0].IsView() == typs[1].IsView()
}

var guardRe = regexp.MustCompile(`^(nresults|nparams|kind|len|named)\((.*)\)(=|>=)(\w+)$`)

// Guard evaluates a "when" condition of an o-clause against the types bound to
// the generator function's parameters:
//
//	nresults(ref)=N  nparams(ref)=N  nresults(ref)>=N  kind(ref)=K  len(name)=N  named(ref)=yes|no
//
// ok is false when the text is not such a condition.
func (in *Instance) Guard(g string, args map[string]geval.Value) (holds, ok bool) {
	m := guardRe.FindStringSubmatch(strings.TrimSpace(g))
	if m == nil {
		return false, false
	}
	cmp := func(have int) bool {
		want, _ := strconv.Atoi(m[4])
		if m[3] == ">=" {
			return have >= want
		}
		return have == want
	}
	if m[1] == "len" {
		sv, isSlice := args[m[2]].(*geval.SliceVal)
		if !isSlice {
			return false, true
		}
		return cmp(len(sv.Elems)), true
	}
	t, err := in.ResolveTypeRef(m[2], args)
	if err != nil {
		return false, true
	}
	f := in.fact(t)
	if f == nil {
		return false, true
	}
	switch m[1] {
	case "nresults":
		if f.Results == nil {
			return false, true
		}
		return cmp(len(f.Results.Vars)), true
	case "nparams":
		if f.Params == nil {
			return false, true
		}
		return cmp(len(f.Params.Vars)), true
	case "kind":
		return f.Kind.String() == m[4], true
	case "named":
		if m[4] == "yes" {
			return !t.IsView() && f.Named == geval.Yes, true
		}
		return t.IsView() || f.Named == geval.No, true
	}
	return false, true
}

// pickGuarded returns the values of an attribute whose "when <guard>" prefix
// (if any) holds, with the prefix removed.
func (in *Instance) pickGuarded(vals []string, args map[string]geval.Value, decisions []string) []string {
	var out []string
	for _, v := range vals {
		t := strings.TrimSpace(v)
		keep := true
		for strings.HasPrefix(t, "when ") {
			ws := strings.SplitN(t, " ", 3)
			if len(ws) < 3 {
				keep = false
				break
			}
			holds, ok := in.Guard(ws[1], args)
			if !ok && (strings.HasPrefix(ws[1], "anyno(") || strings.HasPrefix(ws[1], "noneno(")) && strings.HasSuffix(ws[1], ")") {
				// anyno(P): some decision "P(...)=no" was taken on the path; noneno(P): none was
				ok = true
				pre := ws[1][strings.Index(ws[1], "(")+1 : len(ws[1])-1]
				any := false
				for _, d := range decisions {
					if strings.HasPrefix(d, pre+"(") && strings.HasSuffix(d, "=no") {
						any = true
					}
				}
				holds = any == strings.HasPrefix(ws[1], "anyno(")
			}
			if !ok {
				for _, d := range decisions {
					if d == ws[1] {
						holds = true
					}
				}
			}
			if !holds {
				keep = false
				break
			}
			t = strings.TrimSpace(ws[2])
		}
		if keep {
			out = append(out, t)
		}
	}
	return out
}
