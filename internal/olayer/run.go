package olayer

import (
	"fmt"
	"go/types"
	"regexp"
	"sort"
	"strings"

	"gvc/internal/driver"
	"gvc/internal/geval"
	"gvc/internal/smt"
	"gvc/internal/vc"
)

// EntryReport is what one generator function yields.
type EntryReport struct {
	Entry        string
	Paths        int
	OkPaths      int
	ErrPaths     int
	Infeasible   int
	OutOfGrammar int
	TextOnly     int // paths whose functional contract is not under verification (text-level obligations only)
	Results      []driver.ObResult
	Queries      []*smt.Query
	Obls         []*vc.Obligation
	Samples      []string
}

func okPath(p *geval.Path) bool {
	if len(p.Ret) == 0 {
		return true
	}
	_, isNil := p.Ret[len(p.Ret)-1].(geval.NilVal)
	return isNil
}

func gres(entry, kind, detail, id string, ok bool, msg string) driver.ObResult {
	st := "unsat"
	if !ok {
		st = "refuted"
	}
	name := "G:" + entry + "/" + kind
	if detail != "" {
		name += ":" + detail
	}
	return driver.ObResult{Name: name, ID: name + "#" + id, Kind: kind, Func: entry, Status: st, Backend: "gvc-symbolic-eval", Layer: "G", Output: msg}
}

// basicVariants: when a path leaves a basic type's kind open across classes the
// generator treats alike, the emitted text is checked once per class.
func basicVariants(p *geval.Path, unnamedToo bool) []map[*geval.SymType]string {
	type alt struct {
		t    *geval.SymType
		reps []string
	}
	var alts []alt
	var ts []*geval.SymType
	for t := range p.Facts {
		ts = append(ts, t)
	}
	sort.Slice(ts, func(i, j int) bool { return ts[i].ID < ts[j].ID })
	for _, t := range ts {
		f := p.Facts[t]
		if f.Kind != geval.KBasic {
			continue
		}
		seen := map[string]string{}
		var ks []int
		if f.Basic == nil {
			for _, k := range []types.BasicKind{types.Bool, types.Int, types.Uint8, types.Float64, types.Complex128, types.String} {
				ks = append(ks, int(k))
			}
		} else {
			for k := range f.Basic {
				ks = append(ks, int(k))
			}
		}
		sort.Ints(ks)
		var reps []string
		for _, k := range ks {
			bk := types.BasicKind(k)
			if bk == types.UntypedNil || bk == types.UnsafePointer {
				continue
			}
			cl := geval.BasicClass(bk)
			if bk == types.Uint8 {
				cl = "byte"
			}
			if _, ok := seen[cl]; !ok {
				seen[cl] = types.Typ[bk].Name()
				reps = append(reps, types.Typ[bk].Name())
			}
		}
		if unnamedToo && f.Named == geval.Unknown {
			// the path does not say whether the basic type is named: both readings
			// ("u:" marks the predeclared type itself)
			if len(reps) == 0 {
				reps = []string{"int"}
			}
			for _, r := range append([]string(nil), reps...) {
				reps = append(reps, "u:"+r)
			}
		}
		if len(reps) > 1 {
			alts = append(alts, alt{t, reps})
		}
	}
	out := []map[*geval.SymType]string{{}}
	for _, a := range alts {
		var next []map[*geval.SymType]string
		for _, m := range out {
			for _, r := range a.reps {
				n := map[*geval.SymType]string{}
				for k, v := range m {
					n[k] = v
				}
				n[a.t] = r
				next = append(next, n)
			}
		}
		out = next
		if len(out) > 64 {
			break
		}
	}
	return out
}

func hasAssignRoles(v map[*geval.SymType]string) bool {
	for _, r := range v {
		if strings.HasPrefix(r, "assign:") || strings.HasPrefix(r, "errtype:") {
			return true
		}
	}
	return false
}

// errVariants: derive.IsError(t) holds of the interface error and of every named
// type with an Error() string method. Besides the reading "t is error", one reading
// in which every such type of the path is a concrete error type.
func errVariants(p *geval.Path) []map[*geval.SymType]string {
	byDesc := map[string]*geval.SymType{}
	for x := range p.Facts {
		byDesc[x.Desc] = x
	}
	v := map[*geval.SymType]string{}
	for k, val := range p.Preds {
		if val == geval.Yes && strings.HasPrefix(k, "derive.IsError(") {
			if t := byDesc[k[len("derive.IsError("):len(k)-1]]; t != nil {
				if f := p.Facts[t]; f == nil || (f.Kind == geval.KUnknown && f.TypeText == "") {
					v[t] = "errtype:concrete"
				}
			}
		}
	}
	if len(v) == 0 {
		return nil
	}
	return []map[*geval.SymType]string{v}
}

// assignVariants: for the pairs of types the path only knows to be assignable
// (types.AssignableTo answered yes) and nothing else about, two readings in
// which they are different types: the pair graph is 2-coloured into "a named
// type" / "its unnamed underlying type" (both colourings). Types the path knows
// more about (a kind, named-ness) keep the reading "the same type".
func assignVariants(p *geval.Path) []map[*geval.SymType]string {
	byDesc := map[string]*geval.SymType{}
	for x := range p.Facts {
		byDesc[x.Desc] = x
	}
	type edge struct{ a, b *geval.SymType }
	var edges []edge
	var keys []string
	for k, v := range p.Preds {
		if v == geval.Yes && strings.HasPrefix(k, "AssignableTo(") {
			keys = append(keys, k)
		}
	}
	sort.Strings(keys)
	plain := func(t *geval.SymType) bool {
		f := p.Facts[t]
		if f == nil {
			return true
		}
		return f.Kind == geval.KUnknown && f.Named == geval.Unknown && len(f.NotKinds) == 0 && f.TypeText == "" && f.Methods == nil && p.Preds["derive.IsError("+t.Desc+")"] != geval.Yes
	}
	for _, k := range keys {
		inner := k[len("AssignableTo(") : len(k)-1]
		depth, cut := 0, -1
		for i, c := range inner {
			switch c {
			case '(':
				depth++
			case ')':
				depth--
			case ',':
				if depth == 0 && cut < 0 {
					cut = i
				}
			}
		}
		if cut < 0 {
			continue
		}
		a, b := byDesc[inner[:cut]], byDesc[inner[cut+1:]]
		if a == nil || b == nil || a == b || !plain(a) || !plain(b) {
			continue
		}
		edges = append(edges, edge{a, b})
	}
	if len(edges) == 0 {
		return nil
	}
	// types related by Identical to anything are left alone
	for k, v := range p.Preds {
		if v == geval.Yes && strings.HasPrefix(k, "Identical(") {
			for _, e := range edges {
				if strings.Contains(k, "("+e.a.Desc+",") || strings.Contains(k, ","+e.a.Desc+")") || strings.Contains(k, "("+e.b.Desc+",") || strings.Contains(k, ","+e.b.Desc+")") {
					return nil
				}
			}
		}
	}
	colour := map[*geval.SymType]int{}
	for changed := true; changed; {
		changed = false
		for _, e := range edges {
			ca, cb := colour[e.a], colour[e.b]
			switch {
			case ca == 0 && cb == 0:
				colour[e.a], colour[e.b] = 1, 2
				changed = true
			case ca == 0:
				colour[e.a] = 3 - cb
				changed = true
			case cb == 0:
				colour[e.b] = 3 - ca
				changed = true
			case ca == cb:
				return nil // an odd cycle: no reading with pairwise distinct neighbours
			}
		}
	}
	names := []string{"", "assign:named", "assign:unnamed"}
	v1, v2 := map[*geval.SymType]string{}, map[*geval.SymType]string{}
	for t, c := range colour {
		v1[t], v2[t] = names[c], names[3-c]
	}
	return []map[*geval.SymType]string{v1, v2}
}

// RunEntry explores a generator function and produces its G and O obligations.
func RunEntry(l *driver.Loaded, b *Builder, entryKey string, opt RunOpts) (*EntryReport, error) {
	con := l.Contracts.Funcs[entryKey]
	if con == nil {
		return nil, fmt.Errorf("generator function %s has no contract", entryKey)
	}
	it := geval.NewInterp(l)
	if opt.MaxArity > 0 {
		it.MaxArity = opt.MaxArity
	}
	it.NameVariants = len(con.Attrs["name-variants"]) > 0
	if ma := con.Attr("max-arity"); ma != "" {
		fmt.Sscan(ma, &it.MaxArity) // the enumeration bound for this generator function (stated in evidence)
	}
	paths, err := it.Explore(entryKey, it.MakeArgs(entryKey), 20000)
	if err != nil {
		return nil, err
	}
	rep := &EntryReport{Entry: entryKey, Paths: len(paths)}
	di := it.ParamNames(entryKey)
	probes := 0
	for pi, p := range paths {
		id := fmt.Sprint(pi)
		entryKey0 := entryKey
		entryKey := entryKey + "[" + PathTag(p) + "]"
		if p.Unsupported != nil {
			// the generator code on this path uses something the symbolic evaluator does not
			// model: the analysis that exists for the pinned tree cannot be redone for this
			// code. Reported as a failed obligation (it passes on the unchanged tree), not as an
			// engine error.
			rep.Results = append(rep.Results, gres(entryKey, "contract-applies", "", id, false,
				fmt.Sprintf("the generator code leaves the analysable subset: %s (%s) on path %s", p.Unsupported.Msg, l.Fset.Position(p.Unsupported.Pos), p.Name())))
			continue
		}
		if ok, _ := p.Consistent(); !ok {
			rep.Infeasible++
			continue
		}
		if it.EntryViolatesGRequires(entryKey0, p) {
			rep.Infeasible++
			continue
		}
		if why := outOfGrammar(p); why != "" {
			rep.OutOfGrammar++
			continue
		}
		// G: no generator panic
		nopanic := true
		msg := ""
		for _, ev := range p.Events {
			if ev.Kind == "panic" {
				nopanic = false
				msg = ev.Msg + " at " + ev.Pos + " on path " + p.Name()
			}
		}
		rep.Results = append(rep.Results, gres(entryKey, "nopanic", "", id, nopanic, msg))
		g1ok, g1msg := true, ""
		for _, ev := range p.Events {
			if ev.Kind == "G1" {
				g1ok, g1msg = false, ev.Msg+" on path "+p.Name()
			}
		}
		rep.Results = append(rep.Results, gres(entryKey, "G1", "callee-preconditions", id, g1ok, g1msg))
		if p.Aborted != "" {
			continue
		}
		// G2: an error created on the path reaches the result
		ok := okPath(p)
		if len(p.Errors) > 0 {
			rep.Results = append(rep.Results, gres(entryKey, "G2", "error-propagated", id, !ok, "an error ("+p.Errors[0].Msg.String()+") is created on path "+p.Name()+" but the function returns nil"))
		}
		if !ok {
			rep.ErrPaths++
			continue
		}
		rep.OkPaths++
		if len(p.Errors) > 0 {
			continue // swallowed error: the emitted text is truncated; reported above
		}
		if len(con.Attrs["emits"]) == 0 {
			continue
		}
		// G3: indentation balanced
		rep.Results = append(rep.Results, gres(entryKey, "G3", "indent-balanced", id, p.Indent == 0, fmt.Sprintf("indentation is %d at return on path %s", p.Indent, p.Name())))
		genArgs := map[string]geval.Value{}
		for i, n := range di {
			if i < len(p.Args) {
				genArgs[n] = p.Args[i]
			}
		}
		// o-fork: case distinctions the property makes although the generator
		// does not (e.g. whether an element type is comparable)
		forks := forkVariants(b, con, p, genArgs)
		bvs := basicVariants(p, len(con.Attrs["basic-unnamed-variants"]) > 0)
		// assignability is wider than identity: besides the reading "the same type",
		// the text is checked under readings in which assignable types are distinct
		// (a named type and its unnamed underlying type)
		if avs := append(assignVariants(p), errVariants(p)...); len(avs) > 0 {
			var all []map[*geval.SymType]string
			for _, bv := range bvs {
				all = append(all, bv)
				for _, av := range avs {
					m := map[*geval.SymType]string{}
					for k, v := range bv {
						m[k] = v
					}
					for k, v := range av {
						m[k] = v
					}
					all = append(all, m)
				}
			}
			bvs = all
		}
		nvar := 0
		for _, fk := range forks {
			for _, variant := range bvs {
				vid := id
				if nvar > 0 {
					vid = fmt.Sprintf("%s.%d", id, nvar)
				}
				nvar++
				for k := range p.Preds {
					if strings.HasPrefix(k, "o-fork.") {
						delete(p.Preds, k)
					}
				}
				entryKey := entryKey
				if len(fk) > 0 {
					var ts []string
					for k, v := range fk {
						p.Preds[k] = v
						yn := "no"
						if v == geval.Yes {
							yn = "yes"
						}
						ts = append(ts, strings.TrimPrefix(k, "o-fork.")+"="+yn)
					}
					sort.Strings(ts)
					entryKey = strings.TrimSuffix(entryKey, "]") + "," + strings.Join(ts, ",") + "]"
					entryKey = strings.Replace(entryKey, "[,", "[", 1)
				}
				if vd := variantDesc(variant); vd != "" {
					entryKey = strings.TrimSuffix(entryKey, "]") + "," + strings.Trim(vd, " []") + "]"
					entryKey = strings.Replace(entryKey, "[,", "[", 1)
				}
				in := b.Build(entryKey, con, p, genArgs, variant)
				desc := p.Name() + variantDesc(variant)
				if len(rep.Samples) < 3 {
					rep.Samples = append(rep.Samples, desc+"\n"+in.Src)
				}
				if in.ParseErr != nil {
					r := ores(entryKey, "G4", "parses", vid, false, in.ParseErr.Error()+" on path "+desc, in.Src)
					r.Concrete, _ = in.ConcretePackage(b.PrefixOf)
					rep.Results = append(rep.Results, r)
					continue
				}
				rep.Results = append(rep.Results, ores(entryKey, "G4", "parses", vid, true, "", ""))
				rep.Results = append(rep.Results, ores(entryKey, "hole-integrity", "", vid, len(in.Torn) == 0, strings.Join(in.Torn, "; ")+" on path "+desc, in.Src))
				if len(in.TypeErrs) > 0 {
					r := ores(entryKey, "typecheck", "", vid, false, strings.Join(in.TypeErrs, "; ")+" on path "+desc, in.Src)
					r.Concrete, _ = in.ConcretePackage(b.PrefixOf)
					rep.Results = append(rep.Results, r)
					continue
				}
				rep.Results = append(rep.Results, ores(entryKey, "typecheck", "", vid, true, "", ""))
				cap := in.CheckCapture()
				rep.Results = append(rep.Results, ores(entryKey, "capture", "", vid, len(cap) == 0, strings.Join(cap, "; ")+" on path "+desc, in.Src))
				hd := in.CheckHeader()
				if con.Attr("o-header") == "unchecked" {
					hd = nil // no other plugin calls this helper: only its parameter list is specified
				}
				if con.Attr("o-header") == "params" {
					hd = in.CheckHeaderParams() // the parameters are what the user's call passes; the result type is not specified
				}
				rep.Results = append(rep.Results, ores(entryKey, "header", "", vid, len(hd) == 0, strings.Join(hd, "; ")+" on path "+desc, in.Src))
				own := in.CheckOwnership()
				rep.Results = append(rep.Results, ores(entryKey, "ownership", "inputs-unmodified", vid, len(own) == 0, strings.Join(own, "; ")+" on path "+desc, in.Src))
				if hasAssignRoles(variant) {
					rep.TextOnly++ // the distinct-types readings are checked at the text level only
					continue
				}
				if opt.NoVC || len(con.Attrs["o-ensures"]) == 0 && len(con.Attrs["serves"]) == 0 && len(con.Attrs["o-rel-ensures"]) == 0 && len(con.Attrs["o-closure-ensures"]) == 0 && len(con.Attrs["o-closure-inv"]) == 0 {
					continue
				}
				if only := con.Attr("o-only"); only != "" && !strings.Contains(","+PathTag(p)+",", ","+only+",") {
					rep.TextOnly++
					continue
				}
				textOnly := false
				for _, t := range con.Attrs["o-text-only"] {
					t = strings.TrimSpace(t)
					if t == "all" {
						textOnly = true
						continue
					}
					if strings.HasPrefix(t, "decision:") {
						for _, d := range p.Decisions {
							if d == strings.TrimPrefix(t, "decision:") {
								textOnly = true
							}
						}
						continue
					}
					if strings.HasPrefix(t, "contains:") {
						if strings.Contains(PathTag(p), strings.TrimPrefix(t, "contains:")) {
							textOnly = true
						}
						continue
					}
					if strings.Contains(","+PathTag(p)+",", ","+t+",") {
						textOnly = true
					}
				}
				if textOnly {
					rep.TextOnly++
					continue
				}
				var err error
				if len(con.Attrs["o-rel-ensures"]) > 0 || in.definesRel() {
					err = in.BuildProduct()
				}
				var e *vc.Engine
				if err == nil {
					e, err = in.Verify()
				}
				if err != nil {
					// the contract no longer fits the emitted code (a loop it names is gone,
					// a name it uses is not declared, ...): the proof that exists for the
					// pinned tree cannot be rebuilt
					rep.Results = append(rep.Results, ores(entryKey, "contract-applies", "", vid, false, err.Error()+" on path "+desc, in.Src))
					continue
				}
				rep.Results = append(rep.Results, ores(entryKey, "contract-applies", "", vid, true, "", ""))
				probes++
				if probes > 3 {
					// vacuity probes are kept for the first paths only: entry states of
					// further paths of the same function differ only in type facts
					var keep []*vc.Obligation
					for _, o := range e.Obls {
						if !o.ExpectSat || strings.Contains(o.Name, "lemma-axioms") {
							keep = append(keep, o)
						}
					}
					e.Obls = keep
				}
				for _, o := range e.Obls {
					o.Name = "O:" + entryKey + "/" + holeNum.ReplaceAllString(strings.TrimPrefix(o.Name, in.Pkg.Name()+"."), Mark+"$1")
					o.ID = o.Name + "#" + vid + "." + o.ID[strings.LastIndex(o.ID, "#")+1:]
					o.Func = entryKey
					o.Note = desc + "\n" + in.Src
				}
				rep.Queries = append(rep.Queries, e.Queries()...)
				rep.Obls = append(rep.Obls, e.Obls...)
			}
		}
	}
	return rep, nil
}

var holeNum = regexp.MustCompile(Mark + `(fn|h|S|T)\d+`)

type RunOpts struct {
	MaxArity int
	NoVC     bool
}

func variantDesc(v map[*geval.SymType]string) string {
	if len(v) == 0 {
		return ""
	}
	var ss []string
	for t, r := range v {
		ss = append(ss, t.Desc+":="+r)
	}
	sort.Strings(ss)
	return " [" + strings.Join(ss, ",") + "]"
}

func ores(entry, kind, detail, id string, ok bool, msg, src string) driver.ObResult {
	st := "unsat"
	if !ok {
		st = "refuted"
	}
	name := "O:" + entry + "/" + kind
	if detail != "" {
		name += ":" + detail
	}
	out := msg
	if !ok && src != "" {
		out += "\n--- schematic program ---\n" + src
	}
	return driver.ObResult{Name: name, ID: name + "#" + id, Kind: kind, Func: entry, Status: st, Backend: "go/parser+go/types", Layer: "O", Output: out}
}

// Solve discharges the SMT obligations of a report.
func (rep *EntryReport) Solve(r *smt.Runner) {
	rs := r.SolveAll(rep.Queries)
	for i, o := range rep.Obls {
		x := rs[i]
		if o.ExpectSat {
			if x.Status == "unsat" {
				x.Status = "vacuous"
			} else {
				x.Status = "unsat"
				x.Backend += "(probe:not-refuted)"
			}
		}
		out := x.Output
		if x.Status != "unsat" {
			out += "\n--- path ---\n" + o.Note
		}
		rep.Results = append(rep.Results, driver.ObResult{Name: o.Name, ID: o.ID, Kind: o.Kind, Func: o.Func, Status: x.Status, Backend: x.Backend,
			Millis: x.Millis, File: x.File, Model: x.Model, Output: out, Layer: "O"})
	}
	rep.Results = driver.MergeProbes(rep.Results)
}

// outOfGrammar: paths over types the properties' grammar does not contain
// (named pointer types: "type P *T") are not subject to Layer-O obligations.
func outOfGrammar(p *geval.Path) string {
	for t, f := range p.Facts {
		if f.Named == geval.Yes && f.Kind == geval.KPointer {
			return "named pointer type " + t.Desc
		}
		if f.Kind == geval.KSignature && f.Variadic == geval.Yes {
			return "variadic signature " + t.Desc
		}
		if f.Kind == geval.KBasic && f.Basic != nil && len(f.Basic) > 0 {
			// unsafe.Pointer and the untyped nil are not types of the properties' grammar
			only := true
			for k := range f.Basic {
				if k != types.UnsafePointer && k != types.UntypedNil {
					only = false
				}
			}
			if only {
				return "unsafe.Pointer / untyped nil " + t.Desc
			}
		}
	}
	return ""
}

// PathTag names a path by the positive semantic decisions on it (type kinds,
// named-ness, predicates that hold, arities): stable under edits that do not
// change the case analysis, and never a line number.
func PathTag(p *geval.Path) string {
	var keep []string
	for _, d := range p.Decisions {
		i := strings.LastIndex(d, "=")
		if i < 0 {
			continue
		}
		k, v := d[:i], d[i+1:]
		if strings.HasPrefix(k, "nparams-") {
			continue
		}
		if strings.HasPrefix(k, "class(") {
			switch v {
			case "Ident", "Primary", "Cmp":
			default:
				keep = append(keep, k+"="+v)
			}
			continue
		}
		switch v {
		case "no", "ok", "nil":
			continue
		case "yes":
			k = strings.Replace(k, "==", ":", 1)
			keep = append(keep, k)
		default:
			keep = append(keep, k+"="+v)
		}
	}
	return strings.Join(keep, ",")
}

// forkVariants: "o-fork: comparable <typeref>" yields the variants yes / no.
func forkVariants(b *Builder, con interface{ Attr(string) string }, p *geval.Path, genArgs map[string]geval.Value) []map[string]geval.Tri {
	out := []map[string]geval.Tri{{}}
	c, ok := con.(interface{ AttrList(string) []string })
	if !ok {
		return out
	}
	tmp0 := &Instance{Path: p, Names: map[*geval.SymType]string{}, B: b, imports: map[string]string{}, Callees: map[string]*geval.Hole{}, Helpers: map[string]*geval.Hole{}}
	for _, f := range tmp0.pickGuarded(c.AttrList("o-fork"), genArgs, p.Decisions) {
		ws := strings.Fields(f)
		if len(ws) == 3 && ws[0] == "usermethod" {
			// usermethod <lookup> <typeref>: whether the named type declares the
			// method the plugin dispatches to, where the generator did not look
			tmp := &Instance{Path: p, Names: map[*geval.SymType]string{}, B: b, imports: map[string]string{}, Callees: map[string]*geval.Hole{}, Helpers: map[string]*geval.Hole{}}
			t, err := tmp.ResolveTypeRef(ws[2], genArgs)
			if err != nil || t.IsView() {
				continue
			}
			if f := p.Facts[t.R()]; f != nil && f.Named == geval.No {
				continue
			}
			decided := false
			for k := range p.Opts() {
				if strings.HasPrefix(k, ws[1]+"(") && strings.HasSuffix(k, "("+t.Desc+")") {
					decided = true
				}
			}
			if decided {
				continue
			}
			key := "o-fork.UserMethod(" + ws[1] + "," + t.Desc + ")"
			var next []map[string]geval.Tri
			for _, m := range out {
				for _, v := range []geval.Tri{geval.Yes, geval.No} {
					n := map[string]geval.Tri{key: v}
					for k, x := range m {
						n[k] = x
					}
					next = append(next, n)
				}
			}
			out = next
			continue
		}
		if len(ws) != 2 || (ws[0] != "comparable" && ws[0] != "nilable" && ws[0] != "flat") {
			continue
		}
		tmp := &Instance{Path: p, Names: map[*geval.SymType]string{}, B: b, imports: map[string]string{}, Callees: map[string]*geval.Hole{}, Helpers: map[string]*geval.Hole{}}
		t, err := tmp.ResolveTypeRef(ws[1], genArgs)
		if err != nil {
			continue
		}
		key := "o-fork.IsComparable(" + t.R().Desc + ")"
		if ws[0] == "flat" {
			// a value type: comparable and free of references (== is structural equality)
			if f := p.Facts[t.R()]; f != nil && f.Kind != geval.KUnknown {
				continue
			}
			key = "o-fork.canEqual(" + t.R().Desc + ")"
		}
		if ws[0] == "nilable" {
			if f := p.Facts[t.R()]; f != nil && (f.Kind != geval.KUnknown || impliedNilable(f)) {
				continue // the path knows the kind already (or has excluded every kind without nil)
			}
			key = "o-fork.Nilable(" + t.R().Desc + ")"
		}
		var next []map[string]geval.Tri
		for _, m := range out {
			for _, v := range []geval.Tri{geval.Yes, geval.No} {
				n := map[string]geval.Tri{key: v}
				for k, x := range m {
					n[k] = x
				}
				next = append(next, n)
			}
		}
		out = next
	}
	return out
}
