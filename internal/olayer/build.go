// Package olayer is Layer O: the text a Layer-G path emits is turned into a
// schematic Go function (holes replaced by marked representatives, types taken
// from the path condition), parsed and type-checked, and handed to the VC
// generator together with the O-clauses of the generator function's contract.
package olayer

import (
	"fmt"
	"go/ast"
	"go/importer"
	"go/parser"
	"go/token"
	"go/types"
	"sort"
	"strconv"
	"strings"

	"gvc/internal/contract"
	"gvc/internal/geval"
)

// Mark prefixes every identifier the engine introduces.
const Mark = "Ħ"

type span struct{ lo, hi int }

// Instance is one path turned into a type-checked schematic program.
type Instance struct {
	Path     *geval.Path
	EntryKey string
	Con      *contract.Func
	Src      string
	Fset     *token.FileSet
	File     *ast.File
	Info     *types.Info
	Pkg      *types.Package
	Names    map[*geval.SymType]string // declared name of opaque / named types
	holeSpan map[int][]span
	typeDecl []string
	funcDecl []string
	imports  map[string]string // alias -> path
	decl     map[string]bool
	B        *Builder
	// bindings of generator-level names (entry parameters) for O-clauses
	GenArgs map[string]geval.Value
	// callee holes by representative function name
	Callees map[string]*geval.Hole
	Helpers map[string]*geval.Hole // funcname holes by identifier
	// Problems found while building (parse / integrity / type errors)
	ParseErr error
	TypeErrs []string
	Torn     []string
	basicRep map[*geval.SymType]string
	Mode     string    // decls | stmts | expr
	Operands []Operand // stmts/expr: the operand parameters of the wrapper
	RetType  string    // stmts/expr: result type of the wrapper
	Wrapper  string    // name of the wrapper function
	alias    map[*geval.SymType]*geval.SymType
	RelFunc  string // name of the product function (relational clauses), if built
	RelOf    string // the function it is the product of
}

// Operand is one operand-text parameter of a statement/expression generator.
type Operand struct {
	Name   string // generator parameter name (this, thatField, ...)
	Class  string
	Type   *geval.SymType
	GoName string // parameter name in the wrapper
	Spec   string // spec expression denoting den(operand)
}

// Builder holds what is shared between instances of one run.
type Builder struct {
	Contracts *contract.Set
	imp       types.Importer
	Sigs      SigTable
	// Prefixes: plugin name -> default function prefix (read from the plugins' NewPlugin calls)
	Prefixes map[string]string
}

// PrefixOf gives the default prefix of a plugin's functions ("" if unknown).
func (b *Builder) PrefixOf(plugin string) string { return b.Prefixes[plugin] }

func NewBuilder(cs *contract.Set) *Builder {
	return &Builder{Contracts: cs, imp: importer.ForCompiler(token.NewFileSet(), "source", nil), Sigs: SigTable{}}
}

func (in *Instance) fact(t *geval.SymType) *geval.TFact { return in.Path.Facts[t.R()] }

// isComparableOpaque: an opaque type must be declared comparable when the path
// says a flat predicate holds of it or it is used as a map key.
func (in *Instance) comparableOpaque(t *geval.SymType) bool {
	for k, v := range in.Path.Preds {
		if v == geval.Yes && strings.HasSuffix(k, "("+t.R().Desc+")") && (strings.Contains(k, "canEqual") || strings.Contains(k, "canCopy") || strings.Contains(k, "IsComparable")) {
			return true
		}
	}
	for _, f := range in.Path.Facts {
		if f.KeyT != nil && f.KeyT.R() == t.R() {
			return true
		}
	}
	return false
}

// basicName picks the representative basic type for a symbolic basic type.
func (in *Instance) basicName(t *geval.SymType) string {
	if r, ok := in.basicRep[t.R()]; ok {
		return strings.TrimPrefix(r, "u:")
	}
	f := in.fact(t)
	if f == nil || f.Basic == nil {
		return "int"
	}
	var ks []int
	for k := range f.Basic {
		ks = append(ks, int(k))
	}
	sort.Ints(ks)
	for _, k := range ks {
		if types.BasicKind(k) == types.UntypedNil {
			continue
		}
		return types.Typ[k].Name()
	}
	return "int"
}

// canon: types the path says are identical / assignable to one another are
// rendered as one type (the generator only checked assignability; the prelude
// takes the most general reading: the same type).
func (in *Instance) canon(t *geval.SymType) *geval.SymType {
	if in.alias == nil {
		in.alias = map[*geval.SymType]*geval.SymType{}
		byDesc := map[string]*geval.SymType{}
		for x := range in.Path.Facts {
			byDesc[x.Desc] = x
		}
		var keys []string
		for k, v := range in.Path.Preds {
			if v == geval.Yes && (strings.HasPrefix(k, "AssignableTo(") || strings.HasPrefix(k, "Identical(")) {
				keys = append(keys, k)
			}
		}
		sort.Strings(keys)
		find := func(x *geval.SymType) *geval.SymType {
			for in.alias[x] != nil {
				x = in.alias[x]
			}
			return x
		}
		for _, k := range keys {
			inner := k[strings.Index(k, "(")+1 : len(k)-1]
			// split at the top-level comma
			depth, cut := 0, -1
			for i, c := range inner {
				switch c {
				case '(':
					depth++
				case ')':
					depth--
				case ',':
					if depth == 0 && cut < 0 {
						cut = i
					}
				}
			}
			if cut < 0 {
				continue
			}
			a, b := byDesc[inner[:cut]], byDesc[inner[cut+1:]]
			if a == nil || b == nil {
				continue
			}
			ra, rb := find(a), find(b)
			if ra == rb {
				continue
			}
			// keep the one the path knows more about
			fa, fb := in.Path.Facts[ra], in.Path.Facts[rb]
			if fa != nil && fb != nil && fa.Kind != geval.KUnknown && fb.Kind == geval.KUnknown {
				in.alias[rb] = ra
			} else if ra.ID < rb.ID && !(fb != nil && fb.Kind != geval.KUnknown && (fa == nil || fa.Kind == geval.KUnknown)) {
				in.alias[rb] = ra
			} else {
				in.alias[ra] = rb
			}
		}
	}
	if t.IsView() {
		return t
	}
	x := t
	for in.alias[x] != nil {
		x = in.alias[x]
	}
	return x
}

// TypeExpr renders a symbolic type as a Go type expression over the prelude.
func (in *Instance) TypeExpr(t *geval.SymType) string {
	if role := in.basicRep[t.R()]; strings.HasPrefix(role, "assign:") && !t.IsView() {
		// a reading in which assignable types are distinct: a named array type and its
		// unnamed underlying type over the class's opaque element type
		u := "[1]" + in.declOpaque(in.canon(t))
		if role == "assign:unnamed" {
			return u
		}
		n := fmt.Sprintf("%sA%d", Mark, t.R().ID)
		if !in.decl["assign:"+n] {
			in.decl["assign:"+n] = true
			in.typeDecl = append(in.typeDecl, fmt.Sprintf("type %s %s", n, u))
		}
		return n
	}
	t = in.canon(t)
	if in.Path.Preds["derive.IsError("+t.R().Desc+")"] == geval.Yes {
		if in.basicRep[t.R()] == "errtype:concrete" && !t.IsView() {
			// derive.IsError also accepts any named type with an Error() string method:
			// the reading in which the type is such a type and not the interface error
			n := fmt.Sprintf("%sE%d", Mark, t.R().ID)
			if !in.decl["errtype:"+n] {
				in.decl["errtype:"+n] = true
				in.typeDecl = append(in.typeDecl, fmt.Sprintf("type %s struct{ %sopq%d int }", n, Mark, t.R().ID))
				in.funcDecl = append(in.funcDecl, fmt.Sprintf("func (%sx %s) Error() string", Mark, n))
			}
			return n
		}
		return "error" // the reading in which the type is the error interface itself
	}
	if in.Path.Preds["derive.IsErrorType("+t.R().Desc+")"] == geval.Yes {
		return "error" // the generator has established that the type is the predeclared error type
	}
	f := in.fact(t)
	if f == nil {
		return in.declOpaque(t)
	}
	if f.TypeText != "" {
		return f.TypeText
	}
	if !t.IsView() && f.Named != geval.No {
		if f.Kind == geval.KBasic && f.Named == geval.Unknown && strings.HasPrefix(in.basicRep[t.R()], "u:") {
			return in.underlying(t) // variant: the predeclared type itself
		}
		if f.Kind == geval.KPointer && f.Named == geval.Unknown {
			return in.underlying(t) // named pointer types are outside the grammar
		}
		return in.declNamed(t)
	}
	return in.underlying(t)
}

func (in *Instance) declOpaque(t *geval.SymType) string {
	r := t.R()
	if n, ok := in.Names[r]; ok {
		return n
	}
	n := fmt.Sprintf("%sT%d", Mark, r.ID)
	in.Names[r] = n
	in.typeDecl = append(in.typeDecl, fmt.Sprintf("type %s %s", n, in.opaqueLit(r)))
	in.declMethods(r, n)
	return n
}

// opaqueLit is the underlying type of a type the path knows nothing about:
// a struct nobody can look into, comparable only if the path says so.
// impliedNilable: the path has excluded every kind whose values are not
// nilable (basic, struct, array): what is left are pointers, slices, maps,
// channels, functions and interfaces.
func impliedNilable(f *geval.TFact) bool {
	return f != nil && f.Kind == geval.KUnknown && f.NotKinds[geval.KBasic] && f.NotKinds[geval.KStruct] && f.NotKinds[geval.KArray]
}

func (in *Instance) opaqueLit(r *geval.SymType) string {
	if in.Path.Preds["o-fork.Nilable("+r.Desc+")"] == geval.Yes || impliedNilable(in.Path.Facts[r.R()]) {
		// an opaque type that has nil as a value (pointer, slice, map, func, interface, chan)
		return fmt.Sprintf("*struct{ %sopq%d [0]func() }", Mark, r.ID)
	}
	if in.comparableOpaque(r) {
		return fmt.Sprintf("struct{ %sopq%d int }", Mark, r.ID)
	}
	return fmt.Sprintf("struct{ %sopq%d [0]func() }", Mark, r.ID)
}

func (in *Instance) declNamed(t *geval.SymType) string {
	r := t.R()
	if n, ok := in.Names[r]; ok {
		return n
	}
	f := in.fact(r)
	if f.Kind == geval.KUnknown {
		return in.declOpaque(r)
	}
	n := fmt.Sprintf("%sT%d", Mark, r.ID)
	in.Names[r] = n // before rendering the underlying type: recursive types
	u := in.underlying(r)
	in.typeDecl = append(in.typeDecl, fmt.Sprintf("type %s %s", n, u))
	in.declMethods(r, n)
	return n
}

// userMethods: generator-side method lookups and the method they look for.
var userMethods = []struct {
	lookup, method, result string
}{
	{"equal.equalMethodInputParam", "Equal", "bool"},
	{"compare.compareMethodInputParam", "Compare", "int"},
}

// declMethods declares the user methods the path says the named type has
// (assumption: a user Equal/Compare method takes the type itself, a pointer to
// it, or an interface, and has a pointer receiver).
func (in *Instance) declMethods(t *geval.SymType, name string) {
	for _, um := range userMethods {
		o, ok := in.Path.Opts()[um.lookup+"("+t.R().Desc+")"]
		if !ok || o.T == nil {
			continue
		}
		pt := name
		if f := in.fact(o.T); f != nil {
			switch f.Kind {
			case geval.KPointer:
				pt = "*" + name
			case geval.KInterface:
				pt = "interface{}"
			}
		}
		in.funcDecl = append(in.funcDecl, fmt.Sprintf("func (%sx *%s) %s(%sy %s) %s", Mark, name, um.method, Mark, pt, um.result))
	}
	// deepcopy looks for a method DeepCopy(dst) (hasDeepCopyMethod): declared on the
	// type itself for slice and map types, on a pointer to it otherwise
	if in.Path.Preds["deepcopy.hasDeepCopyMethod("+t.R().Desc+")"] == geval.Yes {
		if f := in.fact(t); f != nil && (f.Kind == geval.KSlice || f.Kind == geval.KMap) {
			in.funcDecl = append(in.funcDecl, fmt.Sprintf("func (%sx %s) DeepCopy(%sdst %s)", Mark, name, Mark, name))
		} else {
			in.funcDecl = append(in.funcDecl, fmt.Sprintf("func (%sx *%s) DeepCopy(%sdst *%s)", Mark, name, Mark, name))
		}
	}
	// hash looks for a method Hash() int32 (hasHashMethod)
	if in.Path.Preds["hash.hasHashMethod("+t.R().Desc+")"] == geval.Yes {
		in.funcDecl = append(in.funcDecl, fmt.Sprintf("func (%sx %s) Hash() int32", Mark, name))
	}
}

func (in *Instance) underlying(t *geval.SymType) string {
	f := in.fact(t)
	switch f.Kind {
	case geval.KUnknown:
		return in.declOpaque(t)
	case geval.KBasic:
		return in.basicName(t)
	case geval.KPointer:
		return "*" + in.TypeExpr(in.comp(f.Elem, t, "Elem"))
	case geval.KSlice:
		return "[]" + in.TypeExpr(in.comp(f.Elem, t, "Elem"))
	case geval.KArray:
		return fmt.Sprintf("[%sArrLen%d]", Mark, t.R().ID) + in.TypeExpr(in.comp(f.Elem, t, "Elem"))
	case geval.KMap:
		return "map[" + in.TypeExpr(in.comp(f.KeyT, t, "Key")) + "]" + in.TypeExpr(in.comp(f.Elem, t, "Elem"))
	case geval.KChan:
		dir := "chan "
		switch f.ChanDir {
		case 1:
			dir = "chan<- "
		case 2:
			dir = "<-chan "
		}
		return dir + in.TypeExpr(in.comp(f.Elem, t, "Elem"))
	case geval.KStruct:
		if f.NFields < 0 {
			return in.opaqueLit(t.R())
		}
		var fs []string
		for _, fv := range f.Fields {
			fs = append(fs, in.renderTmpl(fv.NameT, nil)+" "+in.TypeExpr(fv.Type))
		}
		return "struct{ " + strings.Join(fs, "; ") + " }"
	case geval.KSignature:
		if f.Params == nil || f.Results == nil {
			return in.declOpaque(t)
		}
		var ps, rs []string
		for _, v := range f.Params.Vars {
			ps = append(ps, in.TypeExpr(v.Type))
		}
		for _, v := range f.Results.Vars {
			rs = append(rs, in.TypeExpr(v.Type))
		}
		s := "func(" + strings.Join(ps, ", ") + ")"
		if len(rs) == 1 {
			s += " " + rs[0]
		} else if len(rs) > 1 {
			s += " (" + strings.Join(rs, ", ") + ")"
		}
		return s
	case geval.KInterface:
		return "interface{ " + fmt.Sprintf("%siface%d()", Mark, t.R().ID) + " }"
	}
	return in.declOpaque(t)
}

// comp returns a component type, creating an opaque stand-in when the path never looked at it.
func (in *Instance) comp(c, owner *geval.SymType, what string) *geval.SymType {
	if c != nil {
		return c
	}
	r := owner.R()
	key := what + "(" + r.Desc + ")"
	for t := range in.Path.Facts {
		if t.Desc == key {
			return t
		}
	}
	nt := &geval.SymType{ID: 100000 + r.ID*4 + len(what), Desc: key}
	in.Path.Facts[nt] = &geval.TFact{NFields: -1, ChanDir: -1}
	f := in.fact(owner)
	if what == "Key" {
		f.KeyT = nt
	} else {
		f.Elem = nt
	}
	return nt
}

// operandName: the identifier an operand hole is rendered as. Operands that
// the contract says are always the literal identifier of the same name
// (o-literal-operands, backed by a g-requires on the callers) keep that name.
func (in *Instance) operandName(desc string) string {
	for _, a := range in.Con.Attrs["o-literal-operands"] {
		for _, w := range strings.Fields(a) {
			if w == desc {
				return desc
			}
		}
	}
	return Mark + desc
}

// holeText renders one hole; exprCtx is non-nil when spans are recorded.
func (in *Instance) holeText(h *geval.Hole) string {
	switch h.Kind {
	case "param":
		id := in.operandName(h.Desc)
		switch h.Class {
		case "Star":
			return "*" + id
		case "Amp":
			return "&" + id
		}
		return id
	case "fieldname":
		return fmt.Sprintf("%s%s_%d", Mark, h.Desc, h.Owner.ID)
	case "paramname", "resultname":
		return fmt.Sprintf("%s%s_%d", Mark, h.Desc, h.Owner.ID)
	case "typestr":
		// go/types prints a signature with its parameter names when it has them
		if f := in.fact(h.Type); f != nil && f.Kind == geval.KSignature && f.Params != nil && f.Results != nil && (h.Type.IsView() || f.Named != geval.Yes) {
			return in.sigText(f.Params, f.Results)
		}
		return in.TypeExpr(h.Type)
	case "tuplestr":
		if len(h.Args) == 1 {
			if tup, ok := h.Args[0].(*geval.SymTuple); ok {
				return "(" + in.tupleText(tup) + ")"
			}
		}
	case "typename":
		return in.TypeExpr(h.Type)
	case "funcname":
		return in.helperName(h)
	case "import":
		path := ""
		if len(h.Names) > 0 {
			path = h.Names[0]
		}
		in.imports[h.Desc] = path
		return h.Desc
	case "arraylen":
		return fmt.Sprintf("%sArrLen%d", Mark, h.ID)
	case "callee":
		if gc := in.B.Contracts.Funcs[h.Callee]; gc != nil && strings.HasPrefix(gc.Attr("abstract"), "text") && h.Class == "Ident" {
			// a computed identifier (e.g. deepcopy's prepend): some fresh name
			return fmt.Sprintf("%sv%d", Mark, h.ID)
		}
		fn := fmt.Sprintf("%sh%d", Mark, h.ID)
		in.Callees[fn] = h
		var as []string
		for _, a := range h.Args {
			if t, ok := a.(*geval.Tmpl); ok {
				as = append(as, in.renderTmpl(t, nil))
			}
		}
		call := fn + "(" + strings.Join(as, ", ") + ")"
		switch h.Class {
		case "Cmp":
			return call + " == " + Mark + "true"
		case "Paren":
			return "(" + call + ")"
		}
		return call
	case "stmt":
		fn := fmt.Sprintf("%sS%d", Mark, h.ID)
		in.Callees[fn] = h
		var as []string
		for _, a := range h.Args {
			if t, ok := a.(*geval.Tmpl); ok {
				as = append(as, in.renderTmpl(t, nil))
			}
		}
		call := fn + "(" + strings.Join(as, ", ") + ")"
		if strings.HasSuffix(h.Class, ":returns") {
			return "return " + call
		}
		// o-assigns-operand: the statements' effect is to assign that operand (an
		// lvalue text): rendered as "<operand> = ĦS(...)", the callee's result
		// being the operand's new value
		if gc := in.B.Contracts.Funcs[h.Callee]; gc != nil {
			if ao := gc.Attr("o-assigns-operand"); ao != "" {
				for i, pn := range gc.Params {
					if pn == strings.TrimSpace(ao) && i < len(h.Args) {
						if t, ok := h.Args[i].(*geval.Tmpl); ok {
							return in.renderTmpl(t, nil) + " = " + call
						}
					}
				}
			}
		}
		return call
	case "fielddecl":
		if len(h.Args) == 1 {
			if sv, ok := h.Args[0].(*geval.SymVar); ok {
				return in.renderTmpl(sv.NameT, nil) + " " + in.TypeExpr(sv.Type)
			}
		}
	case "prefix":
		return Mark + "prefix"
	}
	return fmt.Sprintf("%shole%d", Mark, h.ID)
}

// helperName: helper functions requested with the same (plugin, types) share one identifier.
func (in *Instance) helperName(h *geval.Hole) string {
	var ds []string
	for _, t := range h.Typs {
		ds = append(ds, fmt.Sprintf("%d.%v", t.R().ID, t.IsView()))
	}
	key := h.Plugin + "(" + strings.Join(ds, ",") + ")"
	for n, o := range in.Helpers {
		var os []string
		for _, t := range o.Typs {
			os = append(os, fmt.Sprintf("%d.%v", t.R().ID, t.IsView()))
		}
		if o.Plugin+"("+strings.Join(os, ",")+")" == key {
			return n
		}
	}
	n := fmt.Sprintf("%sfn%d_%s", Mark, h.ID, h.Plugin)
	in.Helpers[n] = h
	return n
}

// renderTmpl renders a template; when rec is non-nil the byte span of every
// hole (relative to the start of this text) is recorded.
func (in *Instance) renderTmpl(t *geval.Tmpl, rec func(h *geval.Hole, lo, hi int)) string {
	var b strings.Builder
	for _, p := range t.Parts {
		if p.Hole == nil {
			b.WriteString(p.Lit)
			continue
		}
		lo := b.Len()
		b.WriteString(in.holeText(p.Hole))
		if rec != nil {
			rec(p.Hole, lo, b.Len())
		}
	}
	return b.String()
}

// Build turns a path of the entry function into a schematic file.
// mode: "decls" (the path emits complete function declarations).
func (b *Builder) Build(entryKey string, con *contract.Func, p *geval.Path, genArgs map[string]geval.Value, basicRep map[*geval.SymType]string) *Instance {
	in := &Instance{Path: p, EntryKey: entryKey, Con: con, Names: map[*geval.SymType]string{}, holeSpan: map[int][]span{},
		imports: map[string]string{}, decl: map[string]bool{}, B: b, GenArgs: genArgs, Callees: map[string]*geval.Hole{}, Helpers: map[string]*geval.Hole{}, basicRep: basicRep}
	var body strings.Builder
	type pend struct {
		h      *geval.Hole
		lo, hi int
	}
	var pends []pend
	for _, ln := range p.Out {
		txt := ln.Text
		s := txt.String()
		if strings.HasPrefix(strings.TrimSpace(s), "//") {
			continue // dropped: emitted comment lines
		}
		base := body.Len()
		line := in.renderTmpl(txt, func(h *geval.Hole, lo, hi int) { pends = append(pends, pend{h, base + lo, base + hi}) })
		body.WriteString(line)
		body.WriteString("\n")
	}
	emitted := body.String()
	in.registerNamedByParam(con, genArgs)
	in.Mode = "decls"
	if m := con.Attr("emits"); m != "" {
		in.Mode = strings.Fields(m)[0]
	}
	wrapOff := 0
	if in.Mode == "stmts" || in.Mode == "expr" {
		head, tail, err := in.wrapper()
		if err != nil {
			in.ParseErr = err
			return in
		}
		if in.Mode == "expr" {
			// the path returns the expression text
			var ex *geval.Tmpl
			if len(p.Ret) > 0 {
				ex, _ = p.Ret[0].(*geval.Tmpl)
			}
			if ex == nil {
				in.ParseErr = fmt.Errorf("expression generator returned no string")
				return in
			}
			pends = nil
			line := in.renderTmpl(ex, func(h *geval.Hole, lo, hi int) { pends = append(pends, pend{h, lo, hi}) })
			head += "return "
			emitted = line + "\n"
		}
		wrapOff = len(head)
		emitted = head + emitted + tail
	}
	// header of the file
	var hdr strings.Builder
	hdr.WriteString("package " + Mark + "p\n\n")
	prelude := in.preludeText(emitted)
	hdr.WriteString(prelude)
	off := hdr.Len() + wrapOff
	in.Src = hdr.String() + emitted
	for _, pd := range pends {
		in.holeSpan[pd.h.ID] = append(in.holeSpan[pd.h.ID], span{off + pd.lo, off + pd.hi})
	}
	in.Fset = token.NewFileSet()
	f, err := parser.ParseFile(in.Fset, "emitted.go", in.Src, parser.SkipObjectResolution)
	if err != nil {
		in.ParseErr = err
		return in
	}
	in.File = f
	in.checkIntegrity()
	in.Info = &types.Info{Types: map[ast.Expr]types.TypeAndValue{}, Defs: map[*ast.Ident]types.Object{}, Uses: map[*ast.Ident]types.Object{},
		Selections: map[*ast.SelectorExpr]*types.Selection{}, Implicits: map[ast.Node]types.Object{}, Scopes: map[ast.Node]*types.Scope{}}
	conf := types.Config{Importer: b.imp, Error: func(err error) { in.TypeErrs = append(in.TypeErrs, cleanTypeErr(err.Error())) }}
	in.Pkg, _ = conf.Check(Mark+"p", in.Fset, []*ast.File{f}, in.Info)
	return in
}

// registerNamedByParam: o-name-param names the generator function's parameter
// that carries the name of the function it emits (Generate passes
// g.GetFuncName(typs...) down): together with the serves attribute this makes
// the emitted function the helper of (plugin, types), as if the path itself had
// asked for the name.
func (in *Instance) registerNamedByParam(con *contract.Func, genArgs map[string]geval.Value) {
	np := strings.TrimSpace(con.Attr("o-name-param"))
	if np == "" || len(con.Attrs["serves"]) == 0 {
		return
	}
	tm, ok := genArgs[np].(*geval.Tmpl)
	if !ok {
		return
	}
	name := in.renderTmpl(tm, nil)
	ws := strings.Fields(con.Attrs["serves"][0])
	if len(ws) == 0 {
		return
	}
	h := &geval.Hole{ID: -1, Kind: "funcname", Class: "Ident", Plugin: ws[0]}
	for _, w := range ws[1:] {
		kv := strings.SplitN(w, "=", 2)
		if len(kv) != 2 {
			continue
		}
		switch {
		case kv[0] == "len":
			n, _ := strconv.Atoi(kv[1])
			for len(h.Typs) < n {
				h.Typs = append(h.Typs, nil)
			}
		case kv[1] == "typs":
			if sv, ok := genArgs[kv[0]].(*geval.SliceVal); ok {
				h.Typs = nil
				for _, el := range sv.Elems {
					t, _ := el.(*geval.SymType)
					h.Typs = append(h.Typs, t)
				}
			}
		case strings.HasPrefix(kv[1], "typs[") && strings.HasSuffix(kv[1], "]"):
			i, err := strconv.Atoi(kv[1][5 : len(kv[1])-1])
			if t, ok := genArgs[kv[0]].(*geval.SymType); ok && err == nil && i >= 0 {
				for len(h.Typs) <= i {
					h.Typs = append(h.Typs, nil)
				}
				h.Typs[i] = t
			}
		}
	}
	for _, t := range h.Typs {
		if t == nil {
			return
		}
	}
	in.Helpers[name] = h
}

func cleanTypeErr(s string) string {
	if i := strings.Index(s, ": "); i >= 0 && strings.HasPrefix(s, "emitted.go") {
		return s[i+2:]
	}
	return s
}

// checkIntegrity: every expression-like hole must come back from the parser as
// one subtree with exactly the representative's extent.
func (in *Instance) checkIntegrity() {
	want := map[span]*geval.Hole{}
	for _, h := range in.Path.Holes {
		switch h.Kind {
		case "callee", "param":
		default:
			continue
		}
		for _, sp := range in.holeSpan[h.ID] {
			want[sp] = h
		}
	}
	if len(want) == 0 {
		return
	}
	found := map[span]bool{}
	base := in.Fset.File(in.File.Pos()).Base()
	ast.Inspect(in.File, func(n ast.Node) bool {
		if n == nil {
			return false
		}
		if e, ok := n.(ast.Expr); ok {
			sp := span{int(e.Pos()) - base, int(e.End()) - base}
			if _, ok := want[sp]; ok {
				found[sp] = true
			}
		}
		if s, ok := n.(*ast.ReturnStmt); ok { // returning statement holes
			sp := span{int(s.Pos()) - base, int(s.End()) - base}
			if _, ok := want[sp]; ok {
				found[sp] = true
			}
		}
		return true
	})
	var torn []string
	for sp, h := range want {
		if !found[sp] {
			torn = append(torn, fmt.Sprintf("hole %s (class %s) is torn apart by the surrounding text: %q", h.Desc, h.Class, in.Src[sp.lo:sp.hi]))
		}
	}
	sort.Strings(torn)
	in.Torn = torn
}

// preludeText declares types, helper functions and placeholder functions.
// Type declarations accumulate while rendering, so the emitted text is
// rendered first and the prelude afterwards.
func (in *Instance) preludeText(emitted string) string {
	var b strings.Builder
	// helper functions requested through GetFuncName, except the ones the text defines itself
	var hnames []string
	for n := range in.Helpers {
		hnames = append(hnames, n)
	}
	sort.Strings(hnames)
	var fdecls []string
	for _, n := range hnames {
		h := in.Helpers[n]
		sig, err := in.B.Sigs.Render(in, h.Plugin, h.Typs)
		if err != nil {
			in.TypeErrs = append(in.TypeErrs, fmt.Sprintf("helper %s: %v", n, err))
			continue
		}
		if strings.Contains(emitted, "func "+n+"(") {
			// defined by the emitted text: keep the signature its callers assume for comparison
			fdecls = append(fdecls, "func "+Mark+"sig_"+n+sig)
			continue
		}
		fdecls = append(fdecls, "func "+n+sig)
	}
	var cnames []string
	for n := range in.Callees {
		cnames = append(cnames, n)
	}
	sort.Strings(cnames)
	for _, n := range cnames {
		h := in.Callees[n]
		sig, err := in.calleeSig(h)
		if err != nil {
			in.TypeErrs = append(in.TypeErrs, fmt.Sprintf("callee %s: %v", n, err))
			continue
		}
		fdecls = append(fdecls, "func "+n+sig)
	}
	if len(in.imports) > 0 {
		var as []string
		for a := range in.imports {
			as = append(as, a)
		}
		sort.Strings(as)
		b.WriteString("import (\n")
		for _, a := range as {
			fmt.Fprintf(&b, "\t%s %q\n", a, in.imports[a])
		}
		b.WriteString(")\n\n")
	}
	b.WriteString("const " + Mark + "true = true\n")
	// array lengths
	for _, t := range sortedFactTypes(in.Path.Facts) {
		f := in.Path.Facts[t]
		if f.Kind == geval.KArray {
			fmt.Fprintf(&b, "const %sArrLen%d = 3\n", Mark, t.ID)
		}
	}
	for _, h := range in.Path.Holes {
		if h.Kind == "arraylen" {
			fmt.Fprintf(&b, "const %sArrLen%d = 3\n", Mark, h.ID)
		}
	}
	for _, d := range in.typeDecl {
		b.WriteString(d + "\n")
	}
	for _, d := range in.funcDecl {
		b.WriteString(d + "\n")
	}
	for _, d := range fdecls {
		b.WriteString(d + "\n")
	}
	b.WriteString("\n")
	return b.String()
}

func sortedFactTypes(m map[*geval.SymType]*geval.TFact) []*geval.SymType {
	var ts []*geval.SymType
	for t := range m {
		ts = append(ts, t)
	}
	sort.Slice(ts, func(i, j int) bool { return ts[i].ID < ts[j].ID })
	return ts
}

// calleeSig: the placeholder function of a callee hole takes the argument
// templates' values; types come from the callee contract's "o-types" attribute.
func (in *Instance) calleeSig(h *geval.Hole) (string, error) {
	con := in.B.Contracts.Funcs[h.Callee]
	if con == nil {
		return "", fmt.Errorf("no contract for %s", h.Callee)
	}
	// o-operands: which parameters are operand texts and their types, e.g.
	//   o-operands: thisField:fieldType thatField:fieldType -> bool
	spec := con.Attr("o-operands")
	if spec == "" {
		return "", fmt.Errorf("contract of %s has no o-operands attribute", h.Callee)
	}
	parts := strings.Split(spec, "->")
	ret := ""
	if len(parts) == 2 {
		ret = strings.TrimSpace(parts[1])
	}
	byName := map[string]geval.Value{}
	for i, pn := range con.Params {
		if i < len(h.Args) {
			byName[pn] = h.Args[i]
		}
	}
	if tv, ok := byName[ret].(*geval.SymType); ok {
		ret = in.TypeExpr(tv)
	}
	var ps []string
	for _, w := range strings.Fields(parts[0]) {
		nt := strings.SplitN(w, ":", 2)
		if len(nt) != 2 {
			return "", fmt.Errorf("bad o-operands entry %q", w)
		}
		tv, ok := byName[nt[1]].(*geval.SymType)
		if !ok {
			return "", fmt.Errorf("o-operands: %s is not a type parameter", nt[1])
		}
		ps = append(ps, Mark+"a"+nt[0]+" "+in.TypeExpr(tv))
	}
	return "(" + strings.Join(ps, ", ") + ") " + ret, nil
}

// wrapper builds the function around emitted statements / an emitted expression.
//
//	o-operands: this:typ that:typ -> bool
func (in *Instance) wrapper() (head, tail string, err error) {
	spec := in.Con.Attr("o-operands")
	if spec == "" {
		return "", "", fmt.Errorf("contract of %s has no o-operands attribute", in.EntryKey)
	}
	parts := strings.Split(spec, "->")
	in.RetType = ""
	if len(parts) == 2 {
		in.RetType = strings.TrimSpace(parts[1])
		if tv, ok := in.GenArgs[in.RetType].(*geval.SymType); ok {
			in.RetType = in.TypeExpr(tv) // the result type is one of the generator's type parameters
		}
	}
	var ps, prologue []string
	for _, w := range strings.Fields(parts[0]) {
		nt := strings.SplitN(w, ":", 2)
		if len(nt) != 2 {
			return "", "", fmt.Errorf("bad o-operands entry %q", w)
		}
		tv, ok := in.GenArgs[nt[1]].(*geval.SymType)
		if !ok {
			return "", "", fmt.Errorf("o-operands: %s is not a type parameter of %s", nt[1], in.EntryKey)
		}
		tm, ok := in.GenArgs[nt[0]].(*geval.Tmpl)
		if !ok || len(tm.Parts) != 1 || tm.Parts[0].Hole == nil {
			return "", "", fmt.Errorf("o-operands: %s is not an operand hole", nt[0])
		}
		h := tm.Parts[0].Hole
		op := Operand{Name: nt[0], Class: h.Class, Type: tv, GoName: in.operandName(h.Desc)}
		switch h.Class {
		case "Star":
			ps = append(ps, op.GoName+" *"+in.TypeExpr(tv))
			op.Spec = "*" + op.GoName
		case "Amp":
			f := in.fact(tv)
			if f == nil || f.Kind != geval.KPointer {
				return "", "", fmt.Errorf("operand %s has class Amp but its type %s is not known to be a pointer", nt[0], tv)
			}
			pn := Mark + "p_" + h.Desc
			ps = append(ps, pn+" "+in.TypeExpr(tv))
			prologue = append(prologue, op.GoName+" := *"+pn)
			op.Spec = pn
			op.GoName = pn
		default:
			ps = append(ps, op.GoName+" "+in.TypeExpr(tv))
			op.Spec = op.GoName
		}
		in.Operands = append(in.Operands, op)
	}
	in.Wrapper = Mark + "F"
	ret := in.RetType
	if ret != "" {
		ret = " (" + Mark + "r " + ret + ")"
	}
	head = "func " + in.Wrapper + "(" + strings.Join(ps, ", ") + ")" + ret + " {\n"
	for _, l := range prologue {
		head += l + "\n"
	}
	tail = "}\n"
	if ao := strings.TrimSpace(in.Con.Attr("o-assigns-operand")); ao != "" {
		for _, op := range in.Operands {
			if op.Name == ao {
				tail = "return " + op.Spec + "\n}\n"
			}
		}
	}
	return head, tail, nil
}

func (in *Instance) tupleText(tup *geval.SymTuple) string {
	var ps []string
	for _, v := range tup.Vars {
		n := in.renderTmpl(v.NameT, nil)
		ty := in.TypeExpr(v.Type)
		if f := in.fact(v.Type); f != nil && f.Kind == geval.KSignature && f.Params != nil && f.Results != nil && f.Named != geval.Yes {
			ty = in.sigText(f.Params, f.Results)
		}
		if n != "" {
			ps = append(ps, n+" "+ty)
		} else {
			ps = append(ps, ty)
		}
	}
	return strings.Join(ps, ", ")
}

// sigText renders a signature the way go/types does: names when present.
func (in *Instance) sigText(params, results *geval.SymTuple) string {
	s := "func(" + in.tupleText(params) + ")"
	switch len(results.Vars) {
	case 0:
	case 1:
		r := in.tupleText(results)
		if strings.Contains(r, " ") && !strings.HasPrefix(r, "func(") && !strings.HasPrefix(r, "struct") && !strings.HasPrefix(r, "map[") && !strings.HasPrefix(r, "interface") && !strings.HasPrefix(r, "chan ") {
			r = "(" + r + ")"
		}
		s += " " + r
	default:
		s += " (" + in.tupleText(results) + ")"
	}
	return s
}

// ConcretePackage turns the schematic program of a path that defines a helper
// into a real package: the prelude's type declarations (user methods get a
// panicking body) and one call of the plugin's function on zero values of the
// requested types. Running the real goderive on it and compiling the result
// replays a text-level violation (does not parse / does not type-check)
// against the real code. ok is false when the path does not define a helper of
// a plugin (inner generator functions: no replay).
func (in *Instance) ConcretePackage(prefixOf func(plugin string) string) (src string, ok bool) {
	if in.File == nil && in.ParseErr == nil {
		return "", false
	}
	var h *geval.Hole
	var hn []string
	for n := range in.Helpers {
		hn = append(hn, n)
	}
	sort.Strings(hn)
	for _, n := range hn {
		if strings.Contains(in.Src, "\nfunc "+n+"(") && !strings.Contains(in.Src, "\nfunc "+n+"(") == false {
			// defined with a body?
			i := strings.Index(in.Src, "\nfunc "+n+"(")
			j := strings.Index(in.Src[i+1:], "\n")
			if j > 0 && strings.HasSuffix(strings.TrimSpace(in.Src[i+1:i+1+j]), "{") {
				h = in.Helpers[n]
				break
			}
		}
	}
	if h == nil {
		return "", false
	}
	prefix := prefixOf(h.Plugin)
	if prefix == "" {
		return "", false
	}
	var b strings.Builder
	b.WriteString("package replay\n\n")
	for _, t := range sortedFactTypes(in.Path.Facts) {
		if f := in.Path.Facts[t]; f.Kind == geval.KArray {
			fmt.Fprintf(&b, "const %sArrLen%d = 3\n", Mark, t.ID)
		}
	}
	for _, hh := range in.Path.Holes {
		if hh.Kind == "arraylen" {
			fmt.Fprintf(&b, "const %sArrLen%d = 3\n", Mark, hh.ID)
		}
	}
	var args []string
	for _, t := range h.Typs {
		args = append(args, "*new("+in.TypeExpr(t)+")")
	}
	for _, d := range in.typeDecl {
		b.WriteString(d + "\n")
	}
	for _, d := range in.funcDecl {
		b.WriteString(d + " { panic(\"user method\") }\n")
	}
	fmt.Fprintf(&b, "\nfunc %suse() {\n\t%s(%s)\n}\n", Mark, prefix, strings.Join(args, ", "))
	return b.String(), true
}
