package olayer

import (
	"fmt"
	"go/types"

	"gvc/internal/geval"
	"gvc/internal/smt"
	"gvc/internal/spec"
	"gvc/internal/vc"
)

// registerComposeSpec installs composeSpec(): the specification of derived
// Compose for the stage signatures of this path, written from C16's statement:
// stages run left to right, each exactly once on the previous stage's results;
// at the first stage k whose error is non-nil no later stage is called, exactly
// that error is returned and every other result is the zero value of its type;
// with no failure the results are the last stage's and the error is nil.
// It is evaluated where the innermost closure returns: cr<i> are the returned
// values, $arg0_<j> the closure's arguments, f<i> the stage functions.
func registerComposeSpec(c *Ctx) {
	e := c.E
	e.Specs["composeSpec"] = func(e *vc.Engine, env *vc.SpecEnv, _ []spec.Expr) (vc.Val, error) {
		sv, ok := c.In.GenArgs["typs"].(*geval.SliceVal)
		if !ok {
			return vc.Val{}, fmt.Errorf("spec: composeSpec needs the generator argument typs")
		}
		n := len(sv.Elems)
		tr, ok := env.St.Named("$trace")
		if !ok {
			return vc.Val{}, fmt.Errorf("spec: composeSpec needs the effect trace")
		}
		// current inputs: the closure's arguments
		var cur []vc.Val
		for j := 0; ; j++ {
			v, ok := env.Bound[fmt.Sprintf("$arg0_%d", j)]
			if !ok {
				break
			}
			cur = append(cur, v)
		}
		var errs []smt.T
		var calls []smt.T
		var lastRes []vc.Val
		var lastTypes []*geval.SymType
		for i := 0; i < n; i++ {
			t := sv.Elems[i].(*geval.SymType)
			f := c.In.fact(t)
			if f == nil || f.Params == nil || f.Results == nil || len(f.Results.Vars) == 0 {
				return vc.Val{}, fmt.Errorf("spec: composeSpec: stage %d has no signature on this path", i)
			}
			fv, err := e.EvalSpec(env, &spec.Ident{Name: fmt.Sprintf("f%d", i)})
			if err != nil {
				return vc.Val{}, err
			}
			sig, ok := fv.Ty.Underlying().(*types.Signature)
			if !ok || sig.Params().Len() != len(cur) {
				return vc.Val{}, fmt.Errorf("spec: composeSpec: stage %d takes %d arguments, has %d inputs", i, sig.Params().Len(), len(cur))
			}
			nr := sig.Results().Len()
			var res []vc.Val
			for k := 0; k < nr-1; k++ {
				res = append(res, e.ApplyTerm(fv, cur, sig, k))
			}
			errs = append(errs, e.ApplyTerm(fv, cur, sig, nr-1).T)
			// the i-th traced call is f_i(cur...)
			boxed := []smt.T{fv.T}
			sorts := []smt.Sort{smt.V}
			for _, a := range cur {
				boxed = append(boxed, vc.Box(a.T))
				sorts = append(sorts, smt.V)
			}
			cn := fmt.Sprintf("mkcall%d", len(cur))
			e.Decls.Fun(cn, sorts, smt.V)
			calls = append(calls, smt.Eq(smt.App(smt.V, "s_at", tr.T, smt.IntLit(i)), smt.App(smt.V, cn, boxed...)))
			cur = res
			lastRes = res
			lastTypes = nil
			for k := 0; k < nr-1; k++ {
				lastTypes = append(lastTypes, f.Results.Vars[k].Type)
			}
		}
		nres := len(lastRes)
		var crs []vc.Val
		for k := 0; k <= nres; k++ {
			v, ok := env.Bound[fmt.Sprintf("cr%d", k)]
			if !ok {
				return vc.Val{}, fmt.Errorf("spec: composeSpec: the closure returns fewer than %d values", nres+1)
			}
			crs = append(crs, v)
		}
		tlen := smt.App(smt.Int, "s_len", tr.T)
		var cases []smt.T
		noErrBefore := smt.True
		for k := 0; k < n; k++ {
			fails := smt.And(noErrBefore, smt.Neq(errs[k], vc.NilV))
			conj := []smt.T{smt.Eq(tlen, smt.IntLit(k+1))}
			conj = append(conj, calls[:k+1]...)
			conj = append(conj, smt.Eq(crs[nres].T, errs[k]))
			for j := 0; j < nres; j++ {
				z := c.ZeroOfSym(lastTypes[j])
				if z.T.Sort != crs[j].T.Sort {
					z.T = vc.Unbox(vc.Box(z.T), crs[j].T.Sort)
				}
				conj = append(conj, smt.Eq(crs[j].T, z.T))
			}
			cases = append(cases, smt.Implies(fails, smt.And(conj...)))
			noErrBefore = smt.And(noErrBefore, smt.Eq(errs[k], vc.NilV))
		}
		conj := []smt.T{smt.Eq(tlen, smt.IntLit(n))}
		conj = append(conj, calls...)
		conj = append(conj, smt.Eq(crs[nres].T, vc.NilV))
		for j := 0; j < nres; j++ {
			conj = append(conj, smt.Eq(crs[j].T, lastRes[j].T))
		}
		cases = append(cases, smt.Implies(noErrBefore, smt.And(conj...)))
		return vc.Val{T: smt.And(cases...), Ty: types.Typ[types.Bool]}, nil
	}
}
