package olayer

import (
	"fmt"
	"go/ast"
	"go/types"
	"regexp"
	"strconv"
	"strings"

	"gvc/internal/geval"
	"gvc/internal/smt"
	"gvc/internal/spec"
	"gvc/internal/vc"
)

// RegisterSpecs installs the specification functions of Layer O. They are
// written from the property statements, by one-level unfolding over the type
// constructors the path condition knows; components the path knows nothing
// about are uninterpreted (the induction hypothesis).
func RegisterSpecs(c *Ctx) {
	e := c.E
	registerComposeSpec(c)
	registerKeySpecs(c)
	argType := func(env *vc.SpecEnv, x spec.Expr) (*geval.SymType, error) {
		v, err := e.EvalSpec(env, x)
		if err != nil {
			return nil, err
		}
		return c.SymTypeOf(v)
	}
	// param0(T)..param3(T), result0(T)..: components of a signature type
	for _, which := range []string{"param", "result"} {
		for i := 0; i < 4; i++ {
			which, i := which, i
			e.Specs[fmt.Sprintf("%s%d", which, i)] = func(e *vc.Engine, env *vc.SpecEnv, args []spec.Expr) (vc.Val, error) {
				t, err := argType(env, args[0])
				if err != nil {
					return vc.Val{}, err
				}
				f := c.In.fact(t)
				tup := f.Params
				if which == "result" {
					tup = f.Results
				}
				if tup == nil || i >= len(tup.Vars) {
					return vc.Val{}, fmt.Errorf("spec: %s%d(%s): no such component on this path", which, i, t)
				}
				return c.typeVal(tup.Vars[i].Type), nil
			}
		}
	}
	// result(i, f, args...): the i-th result of applying the function value f
	e.Specs["result"] = func(e *vc.Engine, env *vc.SpecEnv, args []spec.Expr) (vc.Val, error) {
		if len(args) < 2 {
			return vc.Val{}, fmt.Errorf("spec: result(i, f, args...)")
		}
		il, ok := args[0].(*spec.IntLit)
		if !ok {
			return vc.Val{}, fmt.Errorf("spec: result(i, ...): i must be a literal")
		}
		fv, err := e.EvalSpec(env, args[1])
		if err != nil {
			return vc.Val{}, err
		}
		sig, ok := fv.Ty.Underlying().(*types.Signature)
		if !ok || il.Val >= sig.Results().Len() {
			return vc.Val{}, fmt.Errorf("spec: result(%d, %s): not a function with that many results", il.Val, args[1])
		}
		var as []vc.Val
		for _, a := range args[2:] {
			v, err := e.EvalSpec(env, a)
			if err != nil {
				return vc.Val{}, err
			}
			as = append(as, v)
		}
		return e.ApplyTerm(fv, as, sig, il.Val), nil
	}
	// sumLen(ll, i): total length of ll[0..i) (recursion equations; monotone: lemma by induction)
	e.Specs["sumLen"] = func(e *vc.Engine, env *vc.SpecEnv, args []spec.Expr) (vc.Val, error) {
		if len(args) != 2 {
			return vc.Val{}, fmt.Errorf("spec: sumLen(ll, i)")
		}
		l, err := e.EvalSpec(env, args[0])
		if err != nil {
			return vc.Val{}, err
		}
		i, err := e.EvalSpec(env, args[1])
		if err != nil {
			return vc.Val{}, err
		}
		if !e.Decls.HasFun("sumLen") {
			e.Decls.Fun("sumLen", []smt.Sort{smt.V, smt.Int}, smt.Int)
			ll, ii := smt.T{S: "l", Sort: smt.V}, smt.T{S: "i", Sort: smt.Int}
			sum := func(x smt.T) smt.T { return smt.App(smt.Int, "sumLen", ll, x) }
			e.Axioms = append(e.Axioms, smt.Forall([]smt.Bound{{Name: "l", Sort: smt.V}}, smt.Eq(sum(smt.IntLit(0)), smt.IntLit(0))))
			prev := smt.Sub(ii, smt.IntLit(1))
			bs := []smt.Bound{{Name: "l", Sort: smt.V}, {Name: "i", Sort: smt.Int}}
			e.Axioms = append(e.Axioms, smt.Forall(bs, smt.Implies(smt.Gt(ii, smt.IntLit(0)), smt.Eq(sum(ii), smt.Add(sum(prev), smt.App(smt.Int, "s_len", smt.App(smt.V, "s_at", ll, prev))))), sum(ii)))
			aa, bb := smt.T{S: "a", Sort: smt.Int}, smt.T{S: "b", Sort: smt.Int}
			bs2 := []smt.Bound{{Name: "l", Sort: smt.V}, {Name: "a", Sort: smt.Int}, {Name: "b", Sort: smt.Int}}
			// lemma (induction on b): sumLen(a) + len(l[a]) <= sumLen(b) for a < b, and sumLen >= 0
			e.Axioms = append(e.Axioms, smt.Forall(bs2, smt.Implies(smt.And(smt.Le(smt.IntLit(0), aa), smt.Lt(aa, bb)),
				smt.Le(smt.Add(sum(aa), smt.App(smt.Int, "s_len", smt.App(smt.V, "s_at", ll, aa))), sum(bb))), sum(aa), sum(bb)))
			e.Axioms = append(e.Axioms, smt.Forall(bs, smt.Implies(smt.Ge(ii, smt.IntLit(0)), smt.Ge(sum(ii), smt.IntLit(0))), sum(ii)))
		}
		return vc.Val{T: smt.App(smt.Int, "sumLen", l.T, i.T), Ty: types.Typ[types.Int]}, nil
	}
	e.Specs["strJoin"] = func(e *vc.Engine, env *vc.SpecEnv, args []spec.Expr) (vc.Val, error) {
		l, err := e.EvalSpec(env, args[0])
		if err != nil {
			return vc.Val{}, err
		}
		sp, err := e.EvalSpec(env, args[1])
		if err != nil {
			return vc.Val{}, err
		}
		e.Decls.Fun("strJoin", []smt.Sort{smt.V, smt.V}, smt.V)
		return vc.Val{T: smt.App(smt.V, "strJoin", l.T, sp.T), Ty: types.Typ[types.String]}, nil
	}
	// Zero(T): the zero value of a symbolic type
	e.Specs["Zero"] = func(e *vc.Engine, env *vc.SpecEnv, args []spec.Expr) (vc.Val, error) {
		t, err := argType(env, args[0])
		if err != nil {
			return vc.Val{}, err
		}
		return c.ZeroOfSym(t), nil
	}
	e.Specs["runeCount"] = func(e *vc.Engine, env *vc.SpecEnv, args []spec.Expr) (vc.Val, error) {
		v, err := e.EvalSpec(env, args[0])
		if err != nil {
			return vc.Val{}, err
		}
		e.Decls.Fun("rune_count", []smt.Sort{smt.V}, smt.Int)
		return vc.Val{T: smt.App(smt.Int, "rune_count", v.T), Ty: types.Typ[types.Int]}, nil
	}
	e.Specs["runeAt"] = func(e *vc.Engine, env *vc.SpecEnv, args []spec.Expr) (vc.Val, error) {
		v, err := e.EvalSpec(env, args[0])
		if err != nil {
			return vc.Val{}, err
		}
		k, err := e.EvalSpec(env, args[1])
		if err != nil {
			return vc.Val{}, err
		}
		e.Decls.Fun("rune_at", []smt.Sort{smt.V, smt.Int}, smt.Int)
		return vc.Val{T: smt.App(smt.Int, "rune_at", v.T, k.T), Ty: types.Typ[types.Rune]}, nil
	}
	e.Specs["elem"] = func(e *vc.Engine, env *vc.SpecEnv, args []spec.Expr) (vc.Val, error) {
		t, err := argType(env, args[0])
		if err != nil {
			return vc.Val{}, err
		}
		return c.typeVal(c.In.comp(c.In.fact(t).Elem, t, "Elem")), nil
	}
	e.Specs["key"] = func(e *vc.Engine, env *vc.SpecEnv, args []spec.Expr) (vc.Val, error) {
		t, err := argType(env, args[0])
		if err != nil {
			return vc.Val{}, err
		}
		return c.typeVal(c.In.comp(c.In.fact(t).KeyT, t, "Key")), nil
	}
	// effect trace of calls through function-typed parameters
	e.Specs["traceLen"] = func(e *vc.Engine, env *vc.SpecEnv, args []spec.Expr) (vc.Val, error) {
		tr, ok := env.St.Named("$trace")
		if !ok {
			return vc.Val{}, fmt.Errorf("spec: no effect trace in this state")
		}
		return vc.Val{T: smt.App(smt.Int, "s_len", tr.T), Ty: types.Typ[types.Int]}, nil
	}
	// called(j, f, args...): the j-th traced call is f(args...)
	e.Specs["called"] = func(e *vc.Engine, env *vc.SpecEnv, args []spec.Expr) (vc.Val, error) {
		tr, ok := env.St.Named("$trace")
		if !ok {
			return vc.Val{}, fmt.Errorf("spec: no effect trace in this state")
		}
		if len(args) < 2 {
			return vc.Val{}, fmt.Errorf("spec: called(j, f, args...)")
		}
		j, err := e.EvalSpec(env, args[0])
		if err != nil {
			return vc.Val{}, err
		}
		var ts []smt.T
		var sorts []smt.Sort
		for _, a := range args[1:] {
			v, err := e.EvalSpec(env, a)
			if err != nil {
				return vc.Val{}, err
			}
			ts = append(ts, vc.Box(v.T))
			sorts = append(sorts, smt.V)
		}
		cn := fmt.Sprintf("mkcall%d", len(ts)-1)
		e.Decls.Fun(cn, sorts, smt.V)
		return vc.Val{T: smt.Eq(smt.App(smt.V, "s_at", tr.T, j.T), smt.App(smt.V, cn, ts...)), Ty: types.Typ[types.Bool]}, nil
	}
	// countIf(pred, list, i): how many of list[0..i) satisfy pred. Defined by
	// its recursion equations; 0 <= countIf <= i is a lemma (induction on i).
	e.Specs["countIf"] = func(e *vc.Engine, env *vc.SpecEnv, args []spec.Expr) (vc.Val, error) {
		if len(args) != 3 {
			return vc.Val{}, fmt.Errorf("spec: countIf(pred, list, i)")
		}
		p, err := e.EvalSpec(env, args[0])
		if err != nil {
			return vc.Val{}, err
		}
		l, err := e.EvalSpec(env, args[1])
		if err != nil {
			return vc.Val{}, err
		}
		i, err := e.EvalSpec(env, args[2])
		if err != nil {
			return vc.Val{}, err
		}
		if !e.Decls.HasFun("countIf") {
			e.Decls.Fun("countIf", []smt.Sort{smt.V, smt.V, smt.Int}, smt.Int)
			e.Decls.Fun("apply1!r0!V!B", []smt.Sort{smt.V, smt.V}, smt.Bool)
			pp, ll, ii := smt.T{S: "p", Sort: smt.V}, smt.T{S: "l", Sort: smt.V}, smt.T{S: "i", Sort: smt.Int}
			cnt := func(x smt.T) smt.T { return smt.App(smt.Int, "countIf", pp, ll, x) }
			bs := []smt.Bound{{Name: "p", Sort: smt.V}, {Name: "l", Sort: smt.V}}
			e.Axioms = append(e.Axioms, smt.Forall(bs, smt.Eq(cnt(smt.IntLit(0)), smt.IntLit(0))))
			bs3 := append(bs, smt.Bound{Name: "i", Sort: smt.Int})
			prev := smt.Sub(ii, smt.IntLit(1))
			e.Axioms = append(e.Axioms, smt.Forall(bs3, smt.Implies(smt.Gt(ii, smt.IntLit(0)),
				smt.Eq(cnt(ii), smt.Add(cnt(prev), smt.Ite(smt.App(smt.Bool, "apply1!r0!V!B", pp, smt.App(smt.V, "s_at", ll, prev)), smt.IntLit(1), smt.IntLit(0))))), cnt(ii)))
			e.Axioms = append(e.Axioms, smt.Forall(bs3, smt.Implies(smt.Ge(ii, smt.IntLit(0)), smt.And(smt.Le(smt.IntLit(0), cnt(ii)), smt.Le(cnt(ii), ii))), cnt(ii)))
			// lemma L-count (induction on b): a counted position is strictly below any later count
			aa, bb := smt.T{S: "a", Sort: smt.Int}, smt.T{S: "b", Sort: smt.Int}
			bs4 := append(bs, smt.Bound{Name: "a", Sort: smt.Int}, smt.Bound{Name: "b", Sort: smt.Int})
			e.Axioms = append(e.Axioms, smt.Forall(bs4, smt.Implies(smt.And(smt.Le(smt.IntLit(0), aa), smt.Lt(aa, bb)),
				smt.And(smt.Le(cnt(aa), cnt(bb)), smt.Implies(smt.App(smt.Bool, "apply1!r0!V!B", pp, smt.App(smt.V, "s_at", ll, aa)), smt.Lt(cnt(aa), cnt(bb))))), cnt(aa), cnt(bb)))
		}
		return vc.Val{T: smt.App(smt.Int, "countIf", p.T, l.T, i.T), Ty: types.Typ[types.Int]}, nil
	}
	two := func(name string, f func(env *vc.SpecEnv, t *geval.SymType, a, b vc.Val) (smt.T, error)) {
		e.Specs[name] = func(e *vc.Engine, env *vc.SpecEnv, args []spec.Expr) (vc.Val, error) {
			if len(args) != 3 {
				return vc.Val{}, fmt.Errorf("spec: %s(T, a, b)", name)
			}
			t, err := argType(env, args[0])
			if err != nil {
				return vc.Val{}, err
			}
			a, err := e.EvalSpec(env, args[1])
			if err != nil {
				return vc.Val{}, err
			}
			b, err := e.EvalSpec(env, args[2])
			if err != nil {
				return vc.Val{}, err
			}
			r, err := f(env, t, a, b)
			return vc.Val{T: r, Ty: types.Typ[types.Bool]}, err
		}
	}
	three := func(name string, f func(env *vc.SpecEnv, t *geval.SymType, a, b vc.Val) (smt.T, error)) {
		e.Specs[name] = func(e *vc.Engine, env *vc.SpecEnv, args []spec.Expr) (vc.Val, error) {
			if len(args) != 3 {
				return vc.Val{}, fmt.Errorf("spec: %s(T, a, b)", name)
			}
			t, err := argType(env, args[0])
			if err != nil {
				return vc.Val{}, err
			}
			a, err := e.EvalSpec(env, args[1])
			if err != nil {
				return vc.Val{}, err
			}
			b, err := e.EvalSpec(env, args[2])
			if err != nil {
				return vc.Val{}, err
			}
			r, err := f(env, t, a, b)
			return vc.Val{T: r, Ty: types.Typ[types.Int]}, err
		}
	}
	// HashSpec(T, x): the hash of a value as a function of (type, value) that
	// respects structural equality. Used as the contract of the hash helper at its
	// call sites; C04 is the proof that the emitted hash functions satisfy it.
	e.Specs["HashSpec"] = func(e *vc.Engine, env *vc.SpecEnv, args []spec.Expr) (vc.Val, error) {
		if len(args) != 2 {
			return vc.Val{}, fmt.Errorf("spec: HashSpec(T, x)")
		}
		t, err := argType(env, args[0])
		if err != nil {
			return vc.Val{}, err
		}
		x, err := e.EvalSpec(env, args[1])
		if err != nil {
			return vc.Val{}, err
		}
		return vc.Val{T: c.hashOpaque(env, t, x.T), Ty: types.Typ[types.Uint64]}, nil
	}
	three("CmpTop", func(env *vc.SpecEnv, t *geval.SymType, a, b vc.Val) (smt.T, error) {
		return c.CmpTop(env, t, a.T, b.T, 0)
	})
	three("CmpC", func(env *vc.SpecEnv, t *geval.SymType, a, b vc.Val) (smt.T, error) {
		return c.CmpC(env, t, a.T, b.T, 0)
	})
	two("EqC", func(env *vc.SpecEnv, t *geval.SymType, a, b vc.Val) (smt.T, error) { return c.EqC(env, t, a.T, b.T, 0) })
	two("EqTop", func(env *vc.SpecEnv, t *geval.SymType, a, b vc.Val) (smt.T, error) {
		return c.EqTop(env, t, a.T, b.T, 0)
	})
}

// SortOfSym: the SMT sort of values of a symbolic type (as the prelude declares it).
func (c *Ctx) SortOfSym(t *geval.SymType) smt.Sort {
	f := c.In.fact(t)
	if f != nil && f.Kind == geval.KBasic {
		switch geval.BasicClass(basicOf(c.In.basicName(t))) {
		case "integer":
			return smt.Int
		case "bool":
			return smt.Bool
		}
	}
	return smt.V
}

func basicOf(name string) types.BasicKind {
	for _, t := range types.Typ {
		if t.Name() == name {
			return t.Kind()
		}
	}
	return types.Int
}

func (c *Ctx) unboxAs(t *geval.SymType, v smt.T) smt.T { return vc.Unbox(v, c.SortOfSym(t)) }

// hasUserMethod: the path says the (named) type declares the method the
// plugin looks for (equalMethodInputParam(T) != nil and the like).
func (c *Ctx) hasUserMethod(t *geval.SymType, fn string) geval.Tri {
	if t.IsView() {
		return geval.No
	}
	f := c.In.fact(t)
	if f != nil && f.Named == geval.No {
		return geval.No
	}
	for k, o := range c.In.Path.Opts() {
		if strings.HasPrefix(k, fn+"(") && strings.HasSuffix(k, "("+t.Desc+")") {
			if o.T != nil {
				return geval.Yes
			}
			return geval.No
		}
	}
	// the generator never looked: the property still distinguishes the two
	// cases (o-fork: usermethod)
	if v, ok := c.In.Path.Preds["o-fork.UserMethod("+fn+","+t.Desc+")"]; ok {
		return v
	}
	return geval.Unknown
}

func (c *Ctx) flatKnown(t *geval.SymType) geval.Tri {
	if f := c.In.fact(t); f != nil {
		switch f.Kind {
		case geval.KBasic:
			return geval.Yes
		case geval.KPointer, geval.KSlice, geval.KMap, geval.KChan, geval.KSignature, geval.KInterface:
			return geval.No
		case geval.KArray:
			if f.Elem != nil {
				return c.flatKnown(f.Elem)
			}
		case geval.KStruct:
			if f.NFields >= 0 {
				all := geval.Yes
				for _, fv := range f.Fields {
					switch c.flatKnown(fv.Type) {
					case geval.No:
						return geval.No
					case geval.Unknown:
						all = geval.Unknown
					}
				}
				if all == geval.Yes {
					return geval.Yes
				}
			}
		}
	}
	for k, v := range c.In.Path.Preds {
		if strings.HasSuffix(k, "("+t.R().Desc+")") && (strings.Contains(k, "canEqual") || strings.Contains(k, "canCopy") || strings.Contains(k, "derive.IsComparable")) {
			return v
		}
	}
	return geval.Unknown
}

func (c *Ctx) uf(name string, ret smt.Sort, args ...smt.T) smt.T {
	var sorts []smt.Sort
	for _, a := range args {
		sorts = append(sorts, a.Sort)
	}
	c.E.Decls.Fun(name, sorts, ret)
	return smt.App(ret, name, args...)
}

// EqC: equality at a component. Where the named component declares its own
// Equal method the answer is that method's (uninterpreted, total, pure).
func (c *Ctx) EqC(env *vc.SpecEnv, t *geval.SymType, a, b smt.T, depth int) (smt.T, error) {
	switch c.hasUserMethod(t, "equal.equalMethodInputParam") {
	case geval.Yes:
		return c.uf("userEqual", smt.Bool, c.typeVal(t).T, vc.Box(a), vc.Box(b)), nil
	case geval.Unknown:
		f := c.In.fact(t)
		if f == nil || (f.Named != geval.No && !t.IsView() && f.Kind == geval.KUnknown) {
			// nothing known: the induction hypothesis for this component
			return c.eqOpaque(t, a, b), nil
		}
	}
	return c.EqTop(env, t, a, b, depth)
}

func (c *Ctx) eqOpaque(t *geval.SymType, a, b smt.T) smt.T {
	tt := c.typeVal(t).T
	if c.flatKnown(t) == geval.Yes {
		// Go's == on a comparable, reference-free type is structural equality (Go spec)
		if a.Sort != smt.V {
			return smt.Eq(a, b)
		}
		return smt.App(smt.Bool, "goeq", tt, a, b)
	}
	c.declEqSpec()
	return c.uf("EqSpec", smt.Bool, tt, vc.Box(a), vc.Box(b))
}

// hashAxiomFor: for a type whose equality the path unfolds (known kind, known
// fields), HashSpec respects that unfolded equality: forall x y ::
// EqC(T, x, y) ==> HashSpec(T, x) == HashSpec(T, y).
func (c *Ctx) hashAxiomFor(env *vc.SpecEnv, t *geval.SymType, fname string) {
	if c.hashAx == nil {
		c.hashAx = map[string]bool{}
	}
	// one instance per heap the type's equality is read in (the emitted functions
	// under proof only extend the heap by fresh cells, so HashSpec itself is heap-less)
	key := fmt.Sprintf("%s/%d/%v/%s", fname, t.R().ID, t.IsView(), env.St.Heap().S)
	if c.hashAx[key] {
		return
	}
	c.hashAx[key] = true
	srt := c.SortOfSym(t)
	c.E.FreshCounter++
	x := smt.T{S: fmt.Sprintf("hx?%d", c.E.FreshCounter), Sort: srt}
	y := smt.T{S: fmt.Sprintf("hy?%d", c.E.FreshCounter), Sort: srt}
	eq, err := c.EqC(env, t, x, y, 0)
	if err != nil || (fname == "HashSpec" && eq.S == c.eqOpaque(t, x, y).S) {
		return // opaque: covered by the general axiom
	}
	tt := c.typeVal(t).T
	c.E.Decls.Fun(fname, []smt.Sort{smt.V, smt.V}, smt.Int)
	hx := smt.App(smt.Int, fname, tt, vc.Box(x))
	hy := smt.App(smt.Int, fname, tt, vc.Box(y))
	c.E.Axioms = append(c.E.Axioms, smt.Forall([]smt.Bound{{Name: x.S, Sort: srt}, {Name: y.S, Sort: srt}}, smt.Implies(eq, smt.Eq(hx, hy)), hx, hy))
}

// declEqSpec declares the structural equality of opaque components with its
// equivalence axioms.
func (c *Ctx) declEqSpec() {
	if !c.E.Decls.HasFun("EqSpec") {
		// structural equality of an opaque component is an equivalence (the
		// induction hypothesis of C02's reflexive/symmetric/transitive clause)
		c.E.Decls.Fun("EqSpec", []smt.Sort{smt.V, smt.V, smt.V}, smt.Bool)
		t, x, y, z := smt.T{S: "t", Sort: smt.V}, smt.T{S: "x", Sort: smt.V}, smt.T{S: "y", Sort: smt.V}, smt.T{S: "z", Sort: smt.V}
		eq := func(a, b smt.T) smt.T { return smt.App(smt.Bool, "EqSpec", t, a, b) }
		bs := []smt.Bound{{Name: "t", Sort: smt.V}, {Name: "x", Sort: smt.V}}
		c.E.Axioms = append(c.E.Axioms, smt.Forall(bs, eq(x, x), eq(x, x)))
		bs = append(bs, smt.Bound{Name: "y", Sort: smt.V})
		c.E.Axioms = append(c.E.Axioms, smt.Forall(bs, smt.Eq(eq(x, y), eq(y, x)), eq(x, y)))
		bs = append(bs, smt.Bound{Name: "z", Sort: smt.V})
		c.E.Axioms = append(c.E.Axioms, smt.Forall(bs, smt.Implies(smt.And(eq(x, y), eq(y, z)), eq(x, z)), eq(x, y), eq(y, z)))
	}
}

// hashOpaque: the hash of an opaque component: a function of the value with
// values in uint64 that agrees on structurally equal values (C04, used as the
// induction hypothesis / helper contract).
func (c *Ctx) hashOpaque(env *vc.SpecEnv, t *geval.SymType, a smt.T) smt.T {
	tt := c.typeVal(t).T
	defer c.hashAxiomFor(env, t, "HashSpec")
	if !c.E.Decls.HasFun("HashSpec") {
		c.E.Decls.Fun("HashSpec", []smt.Sort{smt.V, smt.V}, smt.Int)
		c.declEqSpec()
		ty, x, y := smt.T{S: "t", Sort: smt.V}, smt.T{S: "x", Sort: smt.V}, smt.T{S: "y", Sort: smt.V}
		h := func(a smt.T) smt.T { return smt.App(smt.Int, "HashSpec", ty, a) }
		bs := []smt.Bound{{Name: "t", Sort: smt.V}, {Name: "x", Sort: smt.V}}
		c.E.Axioms = append(c.E.Axioms, smt.Forall(bs, smt.And(smt.Le(smt.IntLit(0), h(x)), smt.Le(h(x), smt.T{S: "18446744073709551615", Sort: smt.Int})), h(x)))
		bs = append(bs, smt.Bound{Name: "y", Sort: smt.V})
		c.E.Axioms = append(c.E.Axioms, smt.Forall(bs, smt.Implies(smt.App(smt.Bool, "EqSpec", ty, x, y), smt.Eq(h(x), h(y))), smt.App(smt.Bool, "EqSpec", ty, x, y)))
	}
	return smt.App(smt.Int, "HashSpec", tt, vc.Box(a))
}

// orderAxioms declares a three-way comparison function fname(T, x, y) of opaque
// components with what C03 says of it: values in {-1,0,1}, antisymmetric,
// transitive (a total preorder). Used as the induction hypothesis for
// components and as the contract of helpers and user Compare methods.
func (c *Ctx) orderAxioms(fname string) {
	if c.E.Decls.HasFun(fname) {
		return
	}
	c.E.Decls.Fun(fname, []smt.Sort{smt.V, smt.V, smt.V}, smt.Int)
	ty, x, y, z := smt.T{S: "t", Sort: smt.V}, smt.T{S: "x", Sort: smt.V}, smt.T{S: "y", Sort: smt.V}, smt.T{S: "z", Sort: smt.V}
	cmp := func(a, b smt.T) smt.T { return smt.App(smt.Int, fname, ty, a, b) }
	bs := []smt.Bound{{Name: "t", Sort: smt.V}, {Name: "x", Sort: smt.V}, {Name: "y", Sort: smt.V}}
	if c.In != nil && c.In.Con != nil && len(c.In.Con.Attrs["o-order-by-sign"]) > 0 {
		// only the sign of a three-way comparison is specified (a user Compare method may
		// return any negative / positive number): antisymmetry of the sign
		c.E.Axioms = append(c.E.Axioms, smt.Forall(bs, smt.And(smt.Eq(smt.Lt(cmp(x, y), smt.IntLit(0)), smt.Gt(cmp(y, x), smt.IntLit(0))), smt.Eq(smt.Eq(cmp(x, y), smt.IntLit(0)), smt.Eq(cmp(y, x), smt.IntLit(0)))), cmp(x, y)))
	} else {
		c.E.Axioms = append(c.E.Axioms, smt.Forall(bs, smt.And(smt.Le(smt.IntLit(-1), cmp(x, y)), smt.Le(cmp(x, y), smt.IntLit(1)), smt.Eq(cmp(x, y), smt.Neg(cmp(y, x)))), cmp(x, y)))
	}
	bs3 := append(bs, smt.Bound{Name: "z", Sort: smt.V})
	c.E.Axioms = append(c.E.Axioms, smt.Forall(bs3, smt.Implies(smt.And(smt.Le(cmp(x, y), smt.IntLit(0)), smt.Le(cmp(y, z), smt.IntLit(0))), smt.Le(cmp(x, z), smt.IntLit(0))), cmp(x, y), cmp(y, z)))
	c.E.Axioms = append(c.E.Axioms, smt.Forall(bs3, smt.Implies(smt.And(smt.Le(cmp(x, y), smt.IntLit(0)), smt.Lt(cmp(y, z), smt.IntLit(0))), smt.Lt(cmp(x, z), smt.IntLit(0))), cmp(x, y), cmp(y, z)))
	c.E.Axioms = append(c.E.Axioms, smt.Forall(bs3, smt.Implies(smt.And(smt.Lt(cmp(x, y), smt.IntLit(0)), smt.Le(cmp(y, z), smt.IntLit(0))), smt.Lt(cmp(x, z), smt.IntLit(0))), cmp(x, y), cmp(y, z)))
}

// cmpOpaque: the three-way comparison of an opaque component: a total preorder
// with values in {-1,0,1} whose zero set is structural equality (C03's lemmas,
// used here as the induction hypothesis / helper contract).
func (c *Ctx) cmpOpaque(t *geval.SymType, a, b smt.T) smt.T {
	tt := c.typeVal(t).T
	first := !c.E.Decls.HasFun("CmpSpec")
	c.orderAxioms("CmpSpec")
	if first {
		// zero exactly on structurally equal values
		c.declEqSpec()
		ty, x, y := smt.T{S: "t", Sort: smt.V}, smt.T{S: "x", Sort: smt.V}, smt.T{S: "y", Sort: smt.V}
		cmp := smt.App(smt.Int, "CmpSpec", ty, x, y)
		c.E.Axioms = append(c.E.Axioms, smt.Forall([]smt.Bound{{Name: "t", Sort: smt.V}, {Name: "x", Sort: smt.V}, {Name: "y", Sort: smt.V}},
			smt.Eq(smt.Eq(cmp, smt.IntLit(0)), smt.App(smt.Bool, "EqSpec", ty, x, y)), cmp))
	}
	if c.flatKnown(t) == geval.Yes {
		// on a comparable, reference-free type structural equality is ==
		key := "cmpflat/" + tt.S
		if c.hashAx == nil {
			c.hashAx = map[string]bool{}
		}
		if !c.hashAx[key] {
			c.hashAx[key] = true
			x, y := smt.T{S: "x", Sort: smt.V}, smt.T{S: "y", Sort: smt.V}
			cmp := smt.App(smt.Int, "CmpSpec", tt, x, y)
			c.E.Axioms = append(c.E.Axioms, smt.Forall([]smt.Bound{{Name: "x", Sort: smt.V}, {Name: "y", Sort: smt.V}}, smt.Eq(smt.Eq(cmp, smt.IntLit(0)), smt.Eq(x, y)), cmp))
		}
	}
	return smt.App(smt.Int, "CmpSpec", tt, vc.Box(a), vc.Box(b))
}

func sign3(lt, eq smt.T) smt.T {
	return smt.Ite(lt, smt.IntLit(-1), smt.Ite(eq, smt.IntLit(0), smt.IntLit(1)))
}

// CmpC: comparison at a component (a user Compare method decides where one
// exists; assumption: user Compare methods are total preorders with values in
// {-1,0,1} that are zero exactly on values the type's equality accepts).
func (c *Ctx) CmpC(env *vc.SpecEnv, t *geval.SymType, a, b smt.T, depth int) (smt.T, error) {
	if c.hasUserMethod(t, "compare.compareMethodInputParam") == geval.Yes {
		c.orderAxioms("userCompare")
		c.userCompareZero(env, t)
		return smt.App(smt.Int, "userCompare", c.typeVal(t).T, vc.Box(a), vc.Box(b)), nil
	}
	return c.CmpTop(env, t, a, b, depth)
}

// userCompareZero: userCompare(T, x, y) == 0 <==> EqC(T, x, y), per type and heap.
func (c *Ctx) userCompareZero(env *vc.SpecEnv, t *geval.SymType) {
	if c.hashAx == nil {
		c.hashAx = map[string]bool{}
	}
	key := fmt.Sprintf("ucz/%d/%v/%s", t.R().ID, t.IsView(), env.St.Heap().S)
	if c.hashAx[key] {
		return
	}
	c.hashAx[key] = true
	srt := c.SortOfSym(t)
	c.E.FreshCounter++
	x := smt.T{S: fmt.Sprintf("ux?%d", c.E.FreshCounter), Sort: srt}
	y := smt.T{S: fmt.Sprintf("uy?%d", c.E.FreshCounter), Sort: srt}
	eq, err := c.EqC(env, t, x, y, 0)
	if err != nil {
		return
	}
	cmp := smt.App(smt.Int, "userCompare", c.typeVal(t).T, vc.Box(x), vc.Box(y))
	c.E.Axioms = append(c.E.Axioms, smt.Forall([]smt.Bound{{Name: x.S, Sort: srt}, {Name: y.S, Sort: srt}}, smt.Eq(smt.Eq(cmp, smt.IntLit(0)), eq), cmp))
}

func nilFirst(a, b, inner smt.T) smt.T {
	an, bn := smt.Eq(a, vc.NilV), smt.Eq(b, vc.NilV)
	return smt.Ite(smt.And(an, bn), smt.IntLit(0), smt.Ite(an, smt.IntLit(-1), smt.Ite(bn, smt.IntLit(1), inner)))
}

// lexSeq: the lexicographic comparison of two sequences of equal length n,
// element by element with CmpC: lex!T(a, b) is 0 when every position compares
// 0, and otherwise the result at the first position that does not. Defined by
// one axiom with an explicit witness function (the least-number principle).
func (c *Ctx) lexSeq(env *vc.SpecEnv, t, el *geval.SymType, a, b smt.T, isArray bool, depth int) (smt.T, error) {
	id := fmt.Sprintf("%d_%v", t.R().ID, t.IsView())
	lex, wit := "lex!"+id, "lexw!"+id
	if !c.E.Decls.HasFun(lex) {
		c.E.Decls.Fun(lex, []smt.Sort{smt.V, smt.V}, smt.Int)
		c.E.Decls.Fun(wit, []smt.Sort{smt.V, smt.V}, smt.Int)
		x, y := smt.T{S: "x", Sort: smt.V}, smt.T{S: "y", Sort: smt.V}
		nn := smt.App(smt.Int, "s_len", x)
		if isArray {
			nn = c.arrayLen(t)
		}
		at := func(j smt.T) (smt.T, error) {
			return c.CmpC(env, el, c.unboxAs(el, smt.App(smt.V, "s_at", x, j)), c.unboxAs(el, smt.App(smt.V, "s_at", y, j)), depth+1)
		}
		c.E.FreshCounter++
		j := smt.T{S: fmt.Sprintf("lj?%d", c.E.FreshCounter), Sort: smt.Int}
		cj, err := at(j)
		if err != nil {
			return smt.T{}, err
		}
		w := smt.App(smt.Int, wit, x, y)
		cw, err := at(w)
		if err != nil {
			return smt.T{}, err
		}
		l := smt.App(smt.Int, lex, x, y)
		allZero := smt.Forall([]smt.Bound{{Name: j.S, Sort: smt.Int}}, smt.Implies(smt.And(smt.Le(smt.IntLit(0), j), smt.Lt(j, nn)), smt.Eq(cj, smt.IntLit(0))))
		zeroBefore := smt.Forall([]smt.Bound{{Name: j.S, Sort: smt.Int}}, smt.Implies(smt.And(smt.Le(smt.IntLit(0), j), smt.Lt(j, w)), smt.Eq(cj, smt.IntLit(0))))
		body := smt.Or(smt.And(smt.Eq(l, smt.IntLit(0)), allZero),
			smt.And(smt.Le(smt.IntLit(0), w), smt.Lt(w, nn), smt.Neq(cw, smt.IntLit(0)), smt.Eq(l, cw), zeroBefore))
		c.E.Axioms = append(c.E.Axioms, smt.Forall([]smt.Bound{{Name: "x", Sort: smt.V}, {Name: "y", Sort: smt.V}}, body, l))
	}
	return smt.App(smt.Int, lex, a, b), nil
}

// CmpTop: the three-way comparison the property describes, one level unfolded:
// false<true, numeric <, byte-wise strings, real before imaginary part, nil
// first, shorter first, then lexicographic by position / field.
func (c *Ctx) CmpTop(env *vc.SpecEnv, t *geval.SymType, a, b smt.T, depth int) (smt.T, error) {
	f := c.In.fact(t)
	if f == nil || f.Kind == geval.KUnknown || depth > 3 {
		return c.cmpOpaque(t, a, b), nil
	}
	heap := env.St.Heap()
	if f.Kind != geval.KBasic && !strings.HasPrefix(c.In.Con.Key, "compare.") {
		// outside the compare plugin the comparison of a structured type is used
		// through its order properties only (C03's lemmas, proved for every shape
		// where compare's own functions are verified)
		return c.cmpOpaque(t, a, b), nil
	}
	switch f.Kind {
	case geval.KBasic:
		switch geval.BasicClass(basicOf(c.In.basicName(t))) {
		case "integer":
			return sign3(smt.Lt(a, b), smt.Eq(a, b)), nil
		case "bool":
			return sign3(smt.And(smt.Not(a), b), smt.Eq(a, b)), nil
		case "string":
			return sign3(smt.App(smt.Bool, "str_lt", a, b), smt.Eq(a, b)), nil
		case "float":
			return sign3(smt.App(smt.Bool, "flt_lt", a, b), smt.App(smt.Bool, "flt_eq", a, b)), nil
		case "complex":
			c.E.Decls.Fun("cplx_re", []smt.Sort{smt.V}, smt.V)
			c.E.Decls.Fun("cplx_im", []smt.Sort{smt.V}, smt.V)
			re := func(t smt.T) smt.T { return smt.App(smt.V, "cplx_re", t) }
			im := func(t smt.T) smt.T { return smt.App(smt.V, "cplx_im", t) }
			flt := func(x, y smt.T) smt.T { return smt.App(smt.Bool, "flt_lt", x, y) }
			feq := func(x, y smt.T) smt.T { return smt.App(smt.Bool, "flt_eq", x, y) }
			return smt.Ite(feq(re(a), re(b)), sign3(flt(im(a), im(b)), feq(im(a), im(b))), smt.Ite(flt(re(a), re(b)), smt.IntLit(-1), smt.IntLit(1))), nil
		}
	case geval.KPointer:
		el := c.In.comp(f.Elem, t, "Elem")
		da := c.unboxAs(el, smt.App(smt.V, "select", heap, a))
		db := c.unboxAs(el, smt.App(smt.V, "select", heap, b))
		inner, err := c.CmpC(env, el, da, db, depth+1)
		if err != nil {
			return smt.T{}, err
		}
		return nilFirst(a, b, inner), nil
	case geval.KStruct:
		if f.NFields < 0 {
			return c.cmpOpaque(t, a, b), nil
		}
		res := smt.IntLit(0)
		for i := len(f.Fields) - 1; i >= 0; i-- {
			fv := f.Fields[i]
			fa := c.unboxAs(fv.Type, smt.App(smt.V, "f_get", a, smt.IntLit(i)))
			fb := c.unboxAs(fv.Type, smt.App(smt.V, "f_get", b, smt.IntLit(i)))
			x, err := c.CmpC(env, fv.Type, fa, fb, depth+1)
			if err != nil {
				return smt.T{}, err
			}
			res = smt.Ite(smt.Neq(x, smt.IntLit(0)), x, res)
		}
		return res, nil
	case geval.KSlice, geval.KArray:
		el := c.In.comp(f.Elem, t, "Elem")
		la, lb := smt.App(smt.Int, "s_len", a), smt.App(smt.Int, "s_len", b)
		if f.Kind == geval.KArray {
			return c.lexSeq(env, t, el, a, b, true, depth)
		}
		lex, err := c.lexSeq(env, t, el, a, b, false, depth)
		if err != nil {
			return smt.T{}, err
		}
		return nilFirst(a, b, smt.Ite(smt.Lt(la, lb), smt.IntLit(-1), smt.Ite(smt.Gt(la, lb), smt.IntLit(1), lex))), nil
	case geval.KMap:
		ca, cb := smt.App(smt.Int, "m_card", a), smt.App(smt.Int, "m_card", b)
		lex, err := c.lexMap(env, t, a, b, depth)
		if err != nil {
			return smt.T{}, err
		}
		return nilFirst(a, b, smt.Ite(smt.Lt(ca, cb), smt.IntLit(-1), smt.Ite(smt.Gt(ca, cb), smt.IntLit(1), lex))), nil
	}
	return c.cmpOpaque(t, a, b), nil
}

// lexMap: maps of equal size, compared through their sorted key enumerations
// position by position: where the keys at a position are the same key, by the
// values stored under it, otherwise by the keys.
func (c *Ctx) lexMap(env *vc.SpecEnv, t *geval.SymType, a, b smt.T, depth int) (smt.T, error) {
	f := c.In.fact(t)
	kt := c.In.comp(f.KeyT, t, "Key")
	el := c.In.comp(f.Elem, t, "Elem")
	id := fmt.Sprintf("%d_%v", t.R().ID, t.IsView())
	lex, wit := "lexm!"+id, "lexmw!"+id
	if !c.E.Decls.HasFun(lex) {
		c.E.Decls.Fun(lex, []smt.Sort{smt.V, smt.V}, smt.Int)
		c.E.Decls.Fun(wit, []smt.Sort{smt.V, smt.V}, smt.Int)
		x, y := smt.T{S: "x", Sort: smt.V}, smt.T{S: "y", Sort: smt.V}
		nn := smt.App(smt.Int, "m_card", x)
		at := func(j smt.T) (smt.T, error) {
			ka := smt.App(smt.V, "s_at", c.SKTerm(env, kt, x), j)
			kb := smt.App(smt.V, "s_at", c.SKTerm(env, kt, y), j)
			cv, err := c.CmpC(env, el, c.unboxAs(el, smt.App(smt.V, "m_get", x, ka)), c.unboxAs(el, smt.App(smt.V, "m_get", y, kb)), depth+1)
			if err != nil {
				return smt.T{}, err
			}
			ck, err := c.CmpC(env, kt, c.unboxAs(kt, ka), c.unboxAs(kt, kb), depth+1)
			if err != nil {
				return smt.T{}, err
			}
			return smt.Ite(smt.Eq(ka, kb), cv, ck), nil
		}
		c.E.FreshCounter++
		j := smt.T{S: fmt.Sprintf("mj?%d", c.E.FreshCounter), Sort: smt.Int}
		cj, err := at(j)
		if err != nil {
			return smt.T{}, err
		}
		w := smt.App(smt.Int, wit, x, y)
		cw, err := at(w)
		if err != nil {
			return smt.T{}, err
		}
		l := smt.App(smt.Int, lex, x, y)
		allZero := smt.Forall([]smt.Bound{{Name: j.S, Sort: smt.Int}}, smt.Implies(smt.And(smt.Le(smt.IntLit(0), j), smt.Lt(j, nn)), smt.Eq(cj, smt.IntLit(0))))
		zeroBefore := smt.Forall([]smt.Bound{{Name: j.S, Sort: smt.Int}}, smt.Implies(smt.And(smt.Le(smt.IntLit(0), j), smt.Lt(j, w)), smt.Eq(cj, smt.IntLit(0))))
		body := smt.Or(smt.And(smt.Eq(l, smt.IntLit(0)), allZero),
			smt.And(smt.Le(smt.IntLit(0), w), smt.Lt(w, nn), smt.Neq(cw, smt.IntLit(0)), smt.Eq(l, cw), zeroBefore))
		c.E.Axioms = append(c.E.Axioms, smt.Forall([]smt.Bound{{Name: "x", Sort: smt.V}, {Name: "y", Sort: smt.V}}, body, l))
	}
	return smt.App(smt.Int, lex, a, b), nil
}

// EqTop: structural equality, one level unfolded.
func (c *Ctx) EqTop(env *vc.SpecEnv, t *geval.SymType, a, b smt.T, depth int) (smt.T, error) {
	f := c.In.fact(t)
	if f == nil || f.Kind == geval.KUnknown || depth > 3 {
		return c.eqOpaque(t, a, b), nil
	}
	heap := env.St.Heap()
	switch f.Kind {
	case geval.KBasic:
		switch geval.BasicClass(basicOf(c.In.basicName(t))) {
		case "float", "complex":
			return smt.App(smt.Bool, "flt_eq", a, b), nil
		}
		return smt.Eq(a, b), nil
	case geval.KPointer:
		el := c.In.comp(f.Elem, t, "Elem")
		da := c.unboxAs(el, smt.App(smt.V, "select", heap, a))
		db := c.unboxAs(el, smt.App(smt.V, "select", heap, b))
		inner, err := c.EqC(env, el, da, db, depth+1)
		if err != nil {
			return smt.T{}, err
		}
		return smt.Or(smt.And(smt.Eq(a, vc.NilV), smt.Eq(b, vc.NilV)), smt.And(smt.Neq(a, vc.NilV), smt.Neq(b, vc.NilV), inner)), nil
	case geval.KSlice, geval.KArray:
		el := c.In.comp(f.Elem, t, "Elem")
		c.E.FreshCounter++
		j := smt.T{S: fmt.Sprintf("j?%d", c.E.FreshCounter), Sort: smt.Int}
		ea := c.unboxAs(el, smt.App(smt.V, "s_at", a, j))
		eb := c.unboxAs(el, smt.App(smt.V, "s_at", b, j))
		inner, err := c.EqC(env, el, ea, eb, depth+1)
		if err != nil {
			return smt.T{}, err
		}
		var n smt.T
		if f.Kind == geval.KSlice {
			n = smt.App(smt.Int, "s_len", a)
		} else {
			n = c.arrayLen(t)
		}
		all := smt.Forall([]smt.Bound{{Name: j.S, Sort: smt.Int}}, smt.Implies(smt.And(smt.Le(smt.IntLit(0), j), smt.Lt(j, n)), inner))
		if f.Kind == geval.KArray {
			return all, nil
		}
		return smt.And(smt.Eq(smt.Eq(a, vc.NilV), smt.Eq(b, vc.NilV)), smt.Eq(smt.App(smt.Int, "s_len", a), smt.App(smt.Int, "s_len", b)), all), nil
	case geval.KMap:
		el := c.In.comp(f.Elem, t, "Elem")
		c.E.FreshCounter++
		k := smt.T{S: fmt.Sprintf("k?%d", c.E.FreshCounter), Sort: smt.V}
		va := c.unboxAs(el, smt.App(smt.V, "m_get", a, k))
		vb := c.unboxAs(el, smt.App(smt.V, "m_get", b, k))
		inner, err := c.EqC(env, el, va, vb, depth+1)
		if err != nil {
			return smt.T{}, err
		}
		all := smt.Forall([]smt.Bound{{Name: k.S, Sort: smt.V}},
			smt.Implies(smt.App(smt.Bool, "m_has", a, k), smt.And(smt.App(smt.Bool, "m_has", b, k), inner)))
		return smt.And(smt.Eq(smt.Eq(a, vc.NilV), smt.Eq(b, vc.NilV)), smt.Eq(smt.App(smt.Int, "m_card", a), smt.App(smt.Int, "m_card", b)), all), nil
	case geval.KStruct:
		if f.NFields < 0 {
			return c.eqOpaque(t, a, b), nil
		}
		var cs []smt.T
		for i, fv := range f.Fields {
			fa := c.unboxAs(fv.Type, smt.App(smt.V, "f_get", a, smt.IntLit(i)))
			fb := c.unboxAs(fv.Type, smt.App(smt.V, "f_get", b, smt.IntLit(i)))
			x, err := c.EqC(env, fv.Type, fa, fb, depth+1)
			if err != nil {
				return smt.T{}, err
			}
			cs = append(cs, x)
		}
		return smt.And(cs...), nil
	}
	return smt.T{}, fmt.Errorf("spec: structural equality is not defined for kind %s (%s)", f.Kind, t)
}

func (c *Ctx) arrayLen(t *geval.SymType) smt.T {
	name := fmt.Sprintf("arrlen!%d", t.R().ID)
	tt := c.E.Decls.Const(name, smt.Int)
	return tt
}

// UserMethodHook gives meaning to calls of user-declared Equal/Compare methods
// on prelude types: the method is an uninterpreted total function of the two
// values (assumption: user methods are total, pure, deterministic, and treat nil
// receivers/arguments structurally: equal iff both nil or both non-nil with
// equal pointees).
func (c *Ctx) UserMethodHook(e *vc.Engine, st *vc.State, call *ast.CallExpr, name string, args []vc.Val) ([]vc.Val, bool, error) {
	se, ok := ast.Unparen(call.Fun).(*ast.SelectorExpr)
	if !ok {
		return nil, false, nil
	}
	if vs, ok, err := c.reflectHook(e, st, call, se, name, args); ok || err != nil {
		return vs, ok, err
	}
	if se.Sel.Name == "Hash" && len(args) == 0 {
		if vs, ok, err := c.userHashCall(e, st, call, se); ok || err != nil {
			return vs, ok, err
		}
	}
	if len(args) != 1 {
		return nil, false, nil
	}
	var fn, spec string
	var rs smt.Sort
	switch se.Sel.Name {
	case "Equal":
		fn, spec, rs = "userEqual", "equal.equalMethodInputParam", smt.Bool
	case "Compare":
		fn, spec, rs = "userCompare", "compare.compareMethodInputParam", smt.Int
	default:
		return nil, false, nil
	}
	_ = spec
	sel := c.In.Info.Selections[se]
	if sel == nil || sel.Kind() != types.MethodVal {
		return nil, false, nil
	}
	rt := sel.Recv()
	if p, ok := rt.Underlying().(*types.Pointer); ok {
		rt = p.Elem()
	}
	named, ok := rt.(*types.Named)
	if !ok || !strings.HasPrefix(named.Obj().Name(), Mark+"T") {
		return nil, false, nil
	}
	var sym *geval.SymType
	for t, n := range c.In.Names {
		if n == named.Obj().Name() {
			sym = t
		}
	}
	if sym == nil {
		return nil, false, nil
	}
	recv, err := e.EvalExpr(st, se.X)
	if err != nil {
		return nil, true, err
	}
	opt := func(v vc.Val) (isnil, val smt.T) {
		if _, isPtr := v.Ty.Underlying().(*types.Pointer); isPtr {
			return smt.Eq(v.T, vc.NilV), smt.App(smt.V, "select", st.Heap(), v.T)
		}
		if _, isIface := v.Ty.Underlying().(*types.Interface); isIface {
			return smt.Eq(v.T, vc.NilV), smt.App(smt.V, "select", st.Heap(), v.T)
		}
		return smt.False, vc.Box(v.T)
	}
	xn, xv := opt(recv)
	yn, yv := opt(args[0])
	tt := c.typeVal(sym).T
	app := c.uf(fn, rs, tt, xv, yv)
	var res smt.T
	if rs == smt.Bool {
		res = smt.Or(smt.And(xn, yn), smt.And(smt.Not(xn), smt.Not(yn), app))
	} else {
		// nil first
		res = smt.Ite(smt.And(xn, yn), smt.IntLit(0), smt.Ite(xn, smt.IntLit(-1), smt.Ite(yn, smt.IntLit(1), app)))
	}
	return []vc.Val{{T: res, Ty: c.In.Info.TypeOf(call)}}, true, nil
}

// userHashCall: a user-declared Hash method is an uninterpreted total function
// of the receiver's value (assumption: it is consistent with the type's
// equality, as the derived hash has to be: Equal values have the same Hash).
func (c *Ctx) userHashCall(e *vc.Engine, st *vc.State, call *ast.CallExpr, se *ast.SelectorExpr) ([]vc.Val, bool, error) {
	sel := c.In.Info.Selections[se]
	if sel == nil || sel.Kind() != types.MethodVal {
		return nil, false, nil
	}
	rt := sel.Recv()
	isPtr := false
	if p, ok := rt.Underlying().(*types.Pointer); ok {
		rt, isPtr = p.Elem(), true
	}
	named, ok := rt.(*types.Named)
	if !ok || !strings.HasPrefix(named.Obj().Name(), Mark+"T") {
		return nil, false, nil
	}
	var sym *geval.SymType
	for t, n := range c.In.Names {
		if n == named.Obj().Name() {
			sym = t
		}
	}
	if sym == nil {
		return nil, false, nil
	}
	recv, err := e.EvalExpr(st, se.X)
	if err != nil {
		return nil, true, err
	}
	val := recv.T
	if isPtr {
		val = c.unboxAs(sym, smt.App(smt.V, "select", st.Heap(), recv.T))
	}
	env := &vc.SpecEnv{E: e, St: st, Old: st, Bound: map[string]vc.Val{}}
	c.hashAxiomFor(env, sym, "userHash")
	res := smt.App(smt.Int, "userHash", c.typeVal(sym).T, vc.Box(val))
	if isPtr {
		// a nil receiver is the user method's business: some fixed value
		res = smt.Ite(smt.Eq(recv.T, vc.NilV), c.uf("userHashNil", smt.Int, c.typeVal(sym).T), res)
	}
	return []vc.Val{{T: res, Ty: c.In.Info.TypeOf(call)}}, true, nil
}

var fieldNameRe = regexp.MustCompile("^" + Mark + `F(\d+)_(\d+)$`)

// reflectHook: the trusted contract of the reflect/unsafe access path that
// derive.Field.Name emits for unexported fields of imported structs:
//
//	*(*T)(unsafe.Pointer(reflect.Indirect(reflect.ValueOf(p)).FieldByName(n).UnsafeAddr()))
//
// denotes p.n for non-nil p (FieldByName on the zero Value of a nil p panics).
func (c *Ctx) reflectHook(e *vc.Engine, st *vc.State, call *ast.CallExpr, se *ast.SelectorExpr, name string, args []vc.Val) ([]vc.Val, bool, error) {
	ty := c.In.Info.TypeOf(call)
	switch {
	case name == "reflect.ValueOf" || name == "reflect.Indirect":
		if len(args) != 1 {
			return nil, false, nil
		}
		return []vc.Val{{T: vc.Box(args[0].T), Ty: ty}}, true, nil
	case se.Sel.Name == "FieldByName" && len(call.Args) == 1:
		lit, ok := call.Args[0].(*ast.BasicLit)
		if !ok {
			return nil, false, nil
		}
		m := fieldNameRe.FindStringSubmatch(strings.Trim(lit.Value, "\""))
		if m == nil {
			return nil, true, fmt.Errorf("FieldByName(%s): not a field of a prelude struct", lit.Value)
		}
		idx, _ := strconv.Atoi(m[1])
		recv, err := e.EvalExpr(st, se.X)
		if err != nil {
			return nil, true, err
		}
		e.ObligeSafety(st, "reflect-field-of-nil("+lit.Value+")", call.Pos(), smt.Neq(recv.T, vc.NilV))
		ref := c.uf("fieldref", smt.V, recv.T, smt.IntLit(idx))
		st.Assume(smt.Neq(ref, vc.NilV))
		st.Assume(smt.Eq(smt.App(smt.V, "select", st.Heap(), ref), smt.App(smt.V, "f_get", smt.App(smt.V, "select", st.Heap(), recv.T), smt.IntLit(idx))))
		return []vc.Val{{T: ref, Ty: ty}}, true, nil
	case se.Sel.Name == "UnsafeAddr" && len(call.Args) == 0:
		recv, err := e.EvalExpr(st, se.X)
		if err != nil {
			return nil, true, err
		}
		return []vc.Val{{T: c.uf("addr_of", smt.Int, recv.T), Ty: ty}}, true, nil
	}
	return nil, false, nil
}

// convHook: unsafe.Pointer(x.UnsafeAddr()) is the pointer x stands for.
func convHook(e *vc.Engine, st *vc.State, v vc.Val, to types.Type) (vc.Val, bool) {
	// []rune(s): the runes of s in order
	if sl, ok := to.Underlying().(*types.Slice); ok && v.Ty != nil {
		if b, ok := sl.Elem().Underlying().(*types.Basic); ok && b.Kind() == types.Int32 {
			if vb, ok := v.Ty.Underlying().(*types.Basic); ok && vb.Info()&types.IsString != 0 {
				e.Decls.Fun("rune_count", []smt.Sort{smt.V}, smt.Int)
				e.Decls.Fun("rune_at", []smt.Sort{smt.V, smt.Int}, smt.Int)
				r := e.Fresh("runes", smt.V)
				st.Assume(smt.Eq(smt.App(smt.Int, "s_len", r), smt.App(smt.Int, "rune_count", v.T)))
				st.Assume(smt.Ge(smt.App(smt.Int, "rune_count", v.T), smt.IntLit(0)))
				k := smt.T{S: "k?r", Sort: smt.Int}
				st.Assume(smt.Forall([]smt.Bound{{Name: k.S, Sort: smt.Int}}, smt.Eq(smt.App(smt.V, "s_at", r, k), vc.Box(smt.App(smt.Int, "rune_at", v.T, k))), smt.App(smt.V, "s_at", r, k)))
				return vc.Val{T: r, Ty: to}, true
			}
		}
	}
	if b, ok := to.Underlying().(*types.Basic); ok && b.Kind() == types.UnsafePointer && strings.HasPrefix(v.T.S, "(addr_of ") {
		inner := strings.TrimSuffix(strings.TrimPrefix(v.T.S, "(addr_of "), ")")
		return vc.Val{T: smt.T{S: inner, Sort: smt.V}, Ty: to}, true
	}
	return vc.Val{}, false
}

// ZeroOfSym: the zero value of a symbolic type as the prelude declares it.
func (c *Ctx) ZeroOfSym(t *geval.SymType) vc.Val {
	f := c.In.fact(t)
	if f != nil && f.Kind == geval.KBasic {
		switch geval.BasicClass(basicOf(c.In.basicName(t))) {
		case "integer":
			return vc.Val{T: smt.IntLit(0)}
		case "bool":
			return vc.Val{T: smt.False}
		case "string":
			return vc.Val{T: c.E.StrLit("")}
		case "float", "complex":
			return vc.Val{T: c.E.Decls.Const("fltlit!0", smt.V)}
		}
	}
	nilable := c.In.Path.Preds["o-fork.Nilable("+t.R().Desc+")"] == geval.Yes || impliedNilable(f)
	if f != nil {
		switch f.Kind {
		case geval.KPointer, geval.KSlice, geval.KMap, geval.KChan, geval.KSignature, geval.KInterface:
			nilable = true
		}
	}
	if nilable {
		return vc.Val{T: vc.NilV}
	}
	return vc.Val{T: smt.App(smt.V, "zero_of", c.typeVal(t).T)}
}
