package olayer

import (
	"fmt"
	"go/ast"
	"go/token"
	"go/types"
	"sort"
	"strings"
)

// CheckOwnership is the frame condition "inputs are not modified" for slices and
// maps. The VC generator treats slice and map values as mathematical values (a
// write to s[i] rebinds s), so sharing of backing arrays is invisible to it;
// this check closes that gap with an ownership discipline over the emitted
// function (flow-insensitive, conservative):
//
//   - a local slice/map variable is OWNED when every value assigned to it is
//     fresh: make, a composite literal, nil, a string conversion, an append or a
//     re-slicing of an owned value, or the result of a helper whose contract
//     says o-result-fresh;
//   - element writes (x[i] = v, x[i]++, copy(x, ...), delete(x, k)), appends
//     (append(x, ...) may write into spare capacity shared with the caller) and
//     calls of helpers that mutate an argument (o-mutates) are allowed on owned
//     values only, or on parameters the contract lists in o-mutates.
//
// Arrays are values in Go: writes to a local array (not reached through a
// pointer, slice or map) are always allowed.
func (in *Instance) CheckOwnership() []string {
	allowed := map[string]bool{}
	for _, a := range in.Con.Attrs["o-mutates"] {
		for _, w := range strings.Fields(a) {
			allowed[w] = true
			allowed[Mark+w] = true      // operand parameters of a wrapper
			allowed[Mark+"p_"+w] = true // ... passed by address
		}
	}
	var out []string
	for _, d := range in.File.Decls {
		fd, ok := d.(*ast.FuncDecl)
		if !ok || fd.Body == nil {
			continue
		}
		out = append(out, in.ownershipOf(fd, allowed)...)
	}
	sort.Strings(out)
	return out
}

func isRefContainer(t types.Type) bool {
	if t == nil {
		return false
	}
	switch t.Underlying().(type) {
	case *types.Slice, *types.Map:
		return true
	}
	return false
}

// isRef: values of the type are references to memory (pointer, slice, map).
func isRef(t types.Type) bool {
	if t == nil {
		return false
	}
	if _, ok := t.Underlying().(*types.Pointer); ok {
		return true
	}
	return isRefContainer(t)
}

func (in *Instance) helperAttr(call *ast.CallExpr, attr string) ([]string, bool) {
	id, ok := ast.Unparen(call.Fun).(*ast.Ident)
	if !ok {
		return nil, false
	}
	h := in.Helpers[id.Name]
	if h == nil {
		return nil, false
	}
	fam, _, err := in.B.Family(h.Plugin, len(h.Typs), in.kind0(h.Typs), sameTypes(h.Typs))
	if err != nil {
		return nil, false
	}
	v, ok := fam.Attrs[attr]
	return v, ok
}

func (in *Instance) ownershipOf(fd *ast.FuncDecl, allowed map[string]bool) []string {
	info := in.Info
	// candidates: local variables of slice/map type that are not parameters
	params := map[types.Object]bool{}
	if fd.Type.Params != nil {
		for _, fl := range fd.Type.Params.List {
			for _, n := range fl.Names {
				if o := info.Defs[n]; o != nil {
					params[o] = true
				}
			}
		}
	}
	owned := map[types.Object]bool{}
	ast.Inspect(fd, func(n ast.Node) bool {
		if id, ok := n.(*ast.Ident); ok {
			if o, ok := info.Defs[id].(*types.Var); ok && o != nil && !params[o] && !o.IsField() && isRef(o.Type()) {
				owned[o] = true
			}
		}
		return true
	})
	// ownedVals: local struct/array variables that hold references inside and are
	// only ever assigned fresh values (declared without a value, composite
	// literals): their address may be handed to a helper that fills them. A
	// shallow copy of an input (dst := src) shares the input's references.
	ownedVals := map[types.Object]bool{}
	ast.Inspect(fd, func(n ast.Node) bool {
		if id, ok := n.(*ast.Ident); ok {
			if o, ok := info.Defs[id].(*types.Var); ok && o != nil && !params[o] && !o.IsField() && holdsRefs(o.Type()) {
				switch o.Type().Underlying().(type) {
				case *types.Struct, *types.Array:
					ownedVals[o] = true
				}
			}
		}
		return true
	})
	// elemOwned: the elements of an owned container of containers are owned too
	// while only fresh values are stored in it
	elemOwned := map[types.Object]bool{}
	for o := range owned {
		var el types.Type
		switch t := o.Type().Underlying().(type) {
		case *types.Slice:
			el = t.Elem()
		case *types.Map:
			el = t.Elem()
		}
		if isRefContainer(el) {
			elemOwned[o] = true
		}
	}
	objOf := func(e ast.Expr) types.Object {
		if id, ok := ast.Unparen(e).(*ast.Ident); ok {
			if o := info.Uses[id]; o != nil {
				return o
			}
			return info.Defs[id]
		}
		return nil
	}
	var fresh func(e ast.Expr) bool
	fresh = func(e ast.Expr) bool {
		switch x := ast.Unparen(e).(type) {
		case *ast.IndexExpr:
			o := objOf(x.X)
			return o != nil && owned[o] && elemOwned[o]
		case *ast.Ident:
			if x.Name == "nil" {
				return true
			}
			o := info.Uses[x]
			if o == nil {
				o = info.Defs[x]
			}
			return o != nil && owned[o]
		case *ast.CompositeLit:
			return true
		case *ast.UnaryExpr:
			if x.Op == token.AND {
				if _, ok := ast.Unparen(x.X).(*ast.CompositeLit); ok {
					return true
				}
				// the address of a local value variable that never held anything but fresh values
				if o := objOf(x.X); o != nil && !params[o] {
					if t := info.TypeOf(x.X); t != nil && !holdsRefs(t) {
						return true
					}
					return ownedVals[o]
				}
			}
			return false
		case *ast.SliceExpr:
			return fresh(x.X)
		case *ast.CallExpr:
			if id, ok := ast.Unparen(x.Fun).(*ast.Ident); ok {
				switch id.Name {
				case "make", "new":
					if _, isB := info.Uses[id].(*types.Builtin); isB {
						return true
					}
				case "append":
					if _, isB := info.Uses[id].(*types.Builtin); isB {
						return len(x.Args) > 0 && fresh(x.Args[0])
					}
				}
				if _, ok := in.helperAttr(x, "o-result-fresh"); ok {
					return true
				}
				// the new value of an lvalue operand produced by a generator function
				// that is itself under the no-sharing obligation
				if h := in.Callees[id.Name]; h != nil {
					if gc := in.B.Contracts.Funcs[h.Callee]; gc != nil && len(gc.Attrs["o-no-sharing"]) > 0 {
						return true
					}
				}
			}
			// conversions: []rune(s), []byte(s) of a string are fresh; T(x) keeps x's ownership
			if tv, ok := info.Types[x.Fun]; ok && tv.IsType() && len(x.Args) == 1 {
				if b, ok := info.TypeOf(x.Args[0]).Underlying().(*types.Basic); ok && b.Info()&types.IsString != 0 {
					return true
				}
				return fresh(x.Args[0])
			}
		}
		return false
	}
	// greatest fixpoint over assignments
	for changed := true; changed; {
		changed = false
		drop := func(id *ast.Ident) {
			o := info.Defs[id]
			if o == nil {
				o = info.Uses[id]
			}
			if o != nil && owned[o] {
				delete(owned, o)
				changed = true
			}
		}
		ast.Inspect(fd, func(n ast.Node) bool {
			switch s := n.(type) {
			case *ast.AssignStmt:
				if len(s.Lhs) == len(s.Rhs) {
					for i, l := range s.Lhs {
						if id, ok := l.(*ast.Ident); ok && !fresh(s.Rhs[i]) {
							drop(id)
						}
						if id, ok := l.(*ast.Ident); ok {
							if o := objOf(id); o != nil && ownedVals[o] {
								if _, lit := ast.Unparen(s.Rhs[i]).(*ast.CompositeLit); !lit {
									delete(ownedVals, o)
									changed = true
								}
							}
						}
						if ix, ok := l.(*ast.IndexExpr); ok && !fresh(s.Rhs[i]) {
							if o := objOf(ix.X); o != nil && elemOwned[o] {
								delete(elemOwned, o)
								changed = true
							}
						}
						// x = append(x, e): e becomes an element of x
						if call, ok := s.Rhs[i].(*ast.CallExpr); ok {
							if fid, ok := call.Fun.(*ast.Ident); ok && fid.Name == "append" {
								if o := objOf(l); o != nil && elemOwned[o] {
									for _, a := range call.Args[1:] {
										if !fresh(a) || call.Ellipsis.IsValid() {
											delete(elemOwned, o)
											changed = true
											break
										}
									}
								}
							}
						}
					}
				} else {
					for _, l := range s.Lhs {
						if id, ok := l.(*ast.Ident); ok {
							drop(id)
							if o := objOf(id); o != nil && ownedVals[o] {
								delete(ownedVals, o)
								changed = true
							}
						}
					}
				}
			case *ast.ValueSpec:
				for i, id := range s.Names {
					if i < len(s.Values) && !fresh(s.Values[i]) {
						drop(id)
					} else if len(s.Values) > 0 && len(s.Values) != len(s.Names) {
						drop(id)
					}
				}
			case *ast.RangeStmt:
				for _, kv := range []ast.Expr{s.Key, s.Value} {
					if id, ok := kv.(*ast.Ident); ok {
						drop(id) // elements of a collection are not owned by the loop
					}
				}
			}
			return true
		})
	}
	// named results start as nil and are owned while only fresh values reach them (handled above)
	var out []string
	seen := map[string]bool{}
	report := func(pos token.Pos, format string, a ...interface{}) {
		msg := fmt.Sprintf(format, a...) + " in " + fd.Name.Name
		if !seen[msg] {
			seen[msg] = true
			out = append(out, msg)
		}
	}
	// root of an element designator: x[i], x.f[i], (*p)[i] ...
	var writable func(e ast.Expr) (ok bool, what string)
	writable = func(e ast.Expr) (bool, string) {
		e = ast.Unparen(e)
		t := info.TypeOf(e)
		if t != nil {
			if _, isArr := t.Underlying().(*types.Array); isArr {
				// an array is a value: writable when it is a local variable or part of one
				switch x := e.(type) {
				case *ast.Ident:
					return true, ""
				case *ast.StarExpr:
					if id, ok := ast.Unparen(x.X).(*ast.Ident); ok {
						if o := info.Uses[id]; o != nil && params[o] && allowed[id.Name] {
							return true, ""
						}
					}
					return false, exprText(e)
				case *ast.IndexExpr:
					return writable(x.X)
				case *ast.SelectorExpr:
					if _, isPtr := info.TypeOf(x.X).Underlying().(*types.Pointer); isPtr {
						return false, exprText(e)
					}
					return writable(x.X)
				}
				return false, exprText(e)
			}
		}
		if id, ok := e.(*ast.Ident); ok {
			o := info.Uses[id]
			if o != nil && params[o] && allowed[id.Name] {
				return true, ""
			}
		}
		// the cell an allowed pointer parameter points to (an lvalue operand passed by address)
		if st, ok := e.(*ast.StarExpr); ok {
			if id, ok := ast.Unparen(st.X).(*ast.Ident); ok {
				if o := info.Uses[id]; o != nil && params[o] && allowed[id.Name] {
					return true, ""
				}
			}
		}
		if fresh(e) {
			return true, ""
		}
		return false, exprText(e)
	}
	// localPointerArg: &x or p for a local (non-parameter) variable: the destination a
	// helper fills must not share references with an input (the helper's contract
	// assumes destination and source unrelated)
	localPointerArg := func(e ast.Expr) bool {
		e = ast.Unparen(e)
		if _, ok := info.TypeOf(e).Underlying().(*types.Pointer); !ok {
			return false
		}
		if u, ok := e.(*ast.UnaryExpr); ok && u.Op == token.AND {
			o := objOf(u.X)
			return o != nil && !params[o]
		}
		if id, ok := e.(*ast.Ident); ok {
			o := objOf(id)
			_, isVar := o.(*types.Var)
			return o != nil && isVar && !params[o]
		}
		return false
	}
	checkElemWrite := func(lhs ast.Expr) {
		ix, ok := ast.Unparen(lhs).(*ast.IndexExpr)
		if !ok {
			return
		}
		if _, isPtr := info.TypeOf(ix.X).Underlying().(*types.Pointer); isPtr {
			return // pointer to array: a heap write, covered by the heap frame
		}
		if ok, what := writable(ix.X); !ok {
			report(lhs.Pos(), "an element of %s, which this function does not own, is written", what)
		}
	}
	noSharing := len(in.Con.Attrs["o-no-sharing"]) > 0
	rootOf := func(e ast.Expr) types.Object {
		for {
			switch x := ast.Unparen(e).(type) {
			case *ast.Ident:
				if o := info.Uses[x]; o != nil {
					return o
				}
				return info.Defs[x]
			case *ast.IndexExpr:
				e = x.X
			case *ast.SelectorExpr:
				e = x.X
			case *ast.StarExpr:
				e = x.X
			case *ast.SliceExpr:
				e = x.X
			default:
				return nil
			}
		}
	}
	ast.Inspect(fd, func(n ast.Node) bool {
		switch s := n.(type) {
		case *ast.AssignStmt:
			for _, l := range s.Lhs {
				checkElemWrite(l)
			}
			// o-no-sharing: a reference stored into the destination (a parameter, or
			// anything reached through an index, field or pointer) is freshly
			// allocated, nil, or a re-slicing of what the destination held itself
			if noSharing && len(s.Lhs) == len(s.Rhs) {
				for i, l := range s.Lhs {
					r := s.Rhs[i]
					if !isRef(info.TypeOf(r)) {
						// a struct or array VALUE that holds references, copied wholesale into the
						// destination, carries the source's references along (shallow copy)
						if rt := info.TypeOf(r); rt != nil && holdsRefs(rt) {
							switch rt.Underlying().(type) {
							case *types.Struct, *types.Array:
								_, plain := ast.Unparen(l).(*ast.Ident)
								if lo := rootOf(l); plain && lo != nil && !params[lo] {
									continue
								}
								if _, lit := ast.Unparen(r).(*ast.CompositeLit); lit {
									continue
								}
								if o := objOf(r); o != nil && ownedVals[o] {
									continue
								}
								if _, isCall := ast.Unparen(r).(*ast.CallExpr); isCall {
									continue // results of helpers are covered by their own contracts
								}
								if st, ok := ast.Unparen(r).(*ast.StarExpr); ok {
									if o := objOf(st.X); o != nil && owned[o] {
										continue // *p of a pointer this function allocated (and had a helper fill)
									}
								}
								report(s.Pos(), "the value %s, which holds references and is not freshly built, is copied into %s: the copy would share memory", exprText(r), exprText(l))
							}
						}
						continue
					}
					lo := rootOf(l)
					_, plainLocal := ast.Unparen(l).(*ast.Ident)
					if plainLocal && lo != nil && !params[lo] {
						continue // a local variable: tracked by the ownership of what it is later stored into
					}
					if fresh(r) {
						continue
					}
					if sl, ok := ast.Unparen(r).(*ast.SliceExpr); ok && lo != nil && rootOf(sl.X) == lo {
						continue
					}
					report(s.Pos(), "the reference %s, which is neither freshly allocated nor nil, is stored into %s: the copy would share memory", exprText(r), exprText(l))
				}
			}
		case *ast.IncDecStmt:
			checkElemWrite(s.X)
		case *ast.CallExpr:
			if id, ok := ast.Unparen(s.Fun).(*ast.Ident); ok {
				if _, isB := info.Uses[id].(*types.Builtin); isB {
					switch id.Name {
					case "append":
						if len(s.Args) > 0 && isRefContainer(info.TypeOf(s.Args[0])) {
							if ok, what := writable(s.Args[0]); !ok {
								report(s.Pos(), "append to %s, which this function does not own, may write into capacity shared with the caller and makes the result share its array", what)
							}
						}
					case "copy", "delete", "clear":
						if len(s.Args) > 0 {
							if ok, what := writable(s.Args[0]); !ok {
								report(s.Pos(), "%s modifies %s, which this function does not own", id.Name, what)
							}
						}
					}
					return true
				}
				if mut, ok := in.helperAttr(s, "o-mutates"); ok {
					// positions of the mutated parameters in the helper's o-sig
					h := in.Helpers[id.Name]
					fam, bind, err := in.B.Family(h.Plugin, len(h.Typs), in.kind0(h.Typs), sameTypes(h.Typs))
					if err == nil {
						if args, err := BindRequest(bind, h.Typs); err == nil {
							if sigs := in.pickGuarded(fam.Attrs["o-sig"], args, nil); len(sigs) == 1 {
								ps, _, _ := sigNames(sigs[0])
								for i, pn := range ps {
									if i < len(s.Args) && strings.Contains(" "+strings.Join(mut, " ")+" ", " "+pn+" ") && (isRefContainer(info.TypeOf(s.Args[i])) || localPointerArg(s.Args[i])) {
										if ok, what := writable(s.Args[i]); !ok {
											report(s.Pos(), "%s, which this function does not own, is passed to a helper that modifies it", what)
										}
									}
								}
							}
						}
					}
				}
			}
			// sort.Slice and friends
			if se, ok := ast.Unparen(s.Fun).(*ast.SelectorExpr); ok {
				if pid, ok := se.X.(*ast.Ident); ok {
					if pn, ok := info.Uses[pid].(*types.PkgName); ok && pn.Imported().Path() == "sort" && len(s.Args) > 0 {
						if ok, what := writable(s.Args[0]); !ok {
							report(s.Pos(), "sort.%s reorders %s, which this function does not own", se.Sel.Name, what)
						}
					}
				}
			}
		}
		return true
	})
	return out
}

func exprText(e ast.Expr) string {
	switch x := ast.Unparen(e).(type) {
	case *ast.Ident:
		return x.Name
	case *ast.SelectorExpr:
		return exprText(x.X) + "." + x.Sel.Name
	case *ast.IndexExpr:
		return exprText(x.X) + "[...]"
	case *ast.SliceExpr:
		return exprText(x.X) + "[:]"
	case *ast.StarExpr:
		return "*" + exprText(x.X)
	case *ast.CallExpr:
		return exprText(x.Fun) + "(...)"
	}
	return "an expression"
}

// holdsRefs: values of the type contain references to memory (directly or in
// fields / elements). Opaque prelude types count as holding references.
func holdsRefs(t types.Type) bool {
	switch u := t.Underlying().(type) {
	case *types.Basic:
		return u.Kind() == types.UnsafePointer
	case *types.Struct:
		for i := 0; i < u.NumFields(); i++ {
			if holdsRefs(u.Field(i).Type()) {
				return true
			}
		}
		return false
	case *types.Array:
		if u.Len() == 0 {
			return true // the marker field of an opaque type
		}
		return holdsRefs(u.Elem())
	}
	return true
}
