package olayer

import (
	"fmt"
	"go/ast"
	"go/types"
	"regexp"
	"sort"
	"strconv"
	"strings"

	"gvc/internal/contract"
	"gvc/internal/geval"
	"gvc/internal/smt"
	"gvc/internal/spec"
	"gvc/internal/vc"
)

// TypeTerm is the SMT constant standing for a symbolic type.
func TypeTerm(t *geval.SymType) smt.T {
	if t.IsView() {
		return smt.T{S: fmt.Sprintf("tyU!%d", t.ID), Sort: smt.V}
	}
	return smt.T{S: fmt.Sprintf("ty!%d", t.ID), Sort: smt.V}
}

// Ctx is the per-instance verification context shared by the spec functions.
type Ctx struct {
	In     *Instance
	E      *vc.Engine
	types  map[string]*geval.SymType // by term text
	hashAx map[string]bool
}

func (c *Ctx) typeVal(t *geval.SymType) vc.Val {
	// the underlying type of an unnamed type is the type itself
	if t.IsView() {
		if f := c.In.fact(t); f != nil && f.Named == geval.No {
			t = t.R()
		}
	}
	tt := TypeTerm(t)
	c.E.Decls.Const(tt.S, smt.V)
	c.types[tt.S] = t
	return vc.Val{T: tt}
}

// SymTypeOf maps a type term back to the symbolic type.
func (c *Ctx) SymTypeOf(v vc.Val) (*geval.SymType, error) {
	t, ok := c.types[v.T.S]
	if !ok {
		return nil, fmt.Errorf("spec: %s is not a generator-level type", v.T.S)
	}
	return t, nil
}

func (c *Ctx) genBindings(args map[string]geval.Value) map[string]vc.Val {
	out := map[string]vc.Val{}
	for k, v := range args {
		switch x := v.(type) {
		case *geval.SymType:
			out[k] = c.typeVal(x)
		case *geval.SliceVal:
			// typs: make elements reachable as typs0, typs1... and through typsAt()
			for i, e := range x.Elems {
				if t, ok := e.(*geval.SymType); ok {
					out[k+strconv.Itoa(i)] = c.typeVal(t)
				}
			}
		}
	}
	return out
}

// oClauses builds a contract from the o-* attributes of a generator function's contract.
func (in *Instance) oClauses(key string, gen *contract.Func, params, results []string, decisions []string, args map[string]geval.Value, forCaller bool) (*contract.Func, error) {
	return in.oClausesP(key, gen, params, results, decisions, args, forCaller, "o-")
}

// oClausesP: prefix "o-" reads the ordinary clauses, "o-rel-" the relational
// ones (for the product program; @1/@2 name the two copies).
func (in *Instance) oClausesP(key string, gen *contract.Func, params, results []string, decisions []string, args map[string]geval.Value, forCaller bool, pre string) (*contract.Func, error) {
	c := &contract.Func{Key: key, Params: params, Results: results, LoopInv: map[int][]contract.Clause{}, Attrs: map[string][]string{}, File: gen.File, Line: gen.Line}
	mk := func(text string) (contract.Clause, error) {
		name := ""
		text = strings.TrimSpace(text)
		if strings.HasPrefix(text, "[") {
			if j := strings.Index(text, "]"); j > 0 {
				name = text[1:j]
				text = strings.TrimSpace(text[j+1:])
			}
		}
		if pre == "o-rel-" {
			text = relText(text)
		}
		e, err := spec.Parse(text)
		if err != nil {
			return contract.Clause{}, fmt.Errorf("%s: o-clause of %s: %v", gen.File, gen.Key, err)
		}
		return contract.Clause{Text: text, Expr: e, File: gen.File, Line: gen.Line, Name: name}, nil
	}
	for _, t := range in.pickGuarded(gen.Attrs[pre+"requires"], args, decisions) {
		cl, err := mk(t)
		if err != nil {
			return nil, err
		}
		c.Requires = append(c.Requires, cl)
	}
	ens := in.pickGuarded(gen.Attrs[pre+"ensures"], args, decisions)
	if forCaller && pre == "o-" {
		// facts about the closure a helper returns: proved at the closure's own
		// returns (o-closure-ensures), available to callers only
		ens = append(ens, in.pickGuarded(gen.Attrs["o-caller-ensures"], args, decisions)...)
	}
	for _, t := range ens {
		cl, err := mk(t)
		if err != nil {
			return nil, err
		}
		c.Ensures = append(c.Ensures, cl)
	}
	for _, t := range in.pickGuarded(gen.Attrs[pre+"loop"], args, decisions) {
		// "<k>: invariant P"
		j := strings.Index(t, ":")
		if j < 0 {
			return nil, fmt.Errorf("%s: o-loop of %s needs 'k: invariant P'", gen.File, gen.Key)
		}
		k, err := strconv.Atoi(strings.TrimSpace(t[:j]))
		if err != nil {
			return nil, fmt.Errorf("%s: o-loop of %s: bad ordinal", gen.File, gen.Key)
		}
		rest := strings.TrimSpace(t[j+1:])
		if !strings.HasPrefix(rest, "invariant") {
			return nil, fmt.Errorf("%s: o-loop of %s needs 'invariant'", gen.File, gen.Key)
		}
		cl, err := mk(strings.TrimPrefix(rest, "invariant"))
		if err != nil {
			return nil, err
		}
		c.LoopInv[k] = append(c.LoopInv[k], cl)
	}
	if len(gen.Attrs["o-pure"]) > 0 {
		c.Attrs["pure"] = []string{"true"}
	} else {
		c.Assigned = true
	}
	if pre == "o-" {
		// heap locations the emitted function may write ("*dst", "dst.f") and
		// slice/map parameters it fills in place (final(p) in the clauses)
		for _, a := range in.pickGuarded(gen.Attrs["o-assigns"], args, decisions) {
			for _, w := range strings.Split(a, ",") {
				if w = strings.TrimSpace(w); w != "" {
					c.Assigns = append(c.Assigns, w)
				}
			}
		}
		for _, a := range in.pickGuarded(gen.Attrs["o-final"], args, decisions) {
			for _, w := range strings.Fields(a) {
				c.Attrs["mutates-arg"] = append(c.Attrs["mutates-arg"], w)
			}
		}
	}
	return c, nil
}

// sigNames extracts parameter and result names from an o-sig text "(a T, b U) (r bool)".
func sigNames(sig string) (params, results []string, err error) {
	depth := 0
	split := -1
	for i, c := range sig {
		switch c {
		case '(':
			depth++
		case ')':
			depth--
			if depth == 0 && split < 0 {
				split = i
			}
		}
	}
	if split < 0 {
		return nil, nil, fmt.Errorf("bad o-sig %q", sig)
	}
	names := func(s string) []string {
		s = strings.TrimSpace(s)
		s = strings.TrimPrefix(s, "(")
		s = strings.TrimSuffix(s, ")")
		var out []string
		depth := 0
		cur := ""
		flush := func() {
			cur = strings.TrimSpace(cur)
			if cur != "" {
				out = append(out, strings.Fields(cur)[0])
			}
			cur = ""
		}
		for _, c := range s {
			switch c {
			case '(', '[', '{':
				depth++
			case ')', ']', '}':
				depth--
			case ',':
				if depth == 0 {
					flush()
					continue
				}
			}
			cur += string(c)
		}
		flush()
		return out
	}
	params = names(sig[:split+1])
	rest := strings.TrimSpace(sig[split+1:])
	if rest == "" {
		return params, nil, nil
	}
	if strings.HasPrefix(rest, "(") {
		results = names(rest)
	} else {
		results = []string{"result0"}
	}
	return params, results, nil
}

// Verify generates the Layer-O obligations of an instance whose path emits
// complete function declarations.
func (in *Instance) Verify() (*vc.Engine, error) {
	cs := contract.NewSet()
	// trusted external contracts (stdlib) are shared
	for k, c := range in.B.Contracts.Funcs {
		if c.Extern {
			cs.Funcs[k] = c
		}
	}
	e := vc.NewEngine(in.Fset, cs)
	e.ExtraBound = map[string]map[string]vc.Val{}
	ctx := &Ctx{In: in, E: e, types: map[string]*geval.SymType{}}
	RegisterSpecs(ctx)
	e.Hook = ctx.UserMethodHook
	e.TraceOn = true
	vc.ConvHook = convHook
	// the schematic program's struct types keep positional field indices (the
	// specification functions address symbolic struct fields by position)
	vc.FieldIDHook = func(owner types.Type, idx int) (int, bool) { return idx, true }
	e.AddFuncs(in.Pkg, in.Info, []*ast.File{in.File})
	// Go types of the prelude that stand for symbolic types
	byGo := map[string]*geval.SymType{}
	qual := func(p *types.Package) string { return p.Name() }
	for _, t := range sortedFactTypes(in.Path.Facts) {
		if n, ok := in.Names[t]; ok {
			byGo[in.Pkg.Name()+"."+n] = t
			continue
		}
		if t.ID >= 100000 {
			continue
		}
		nDecl := len(in.typeDecl)
		expr := in.TypeExpr(t)
		if len(in.typeDecl) != nDecl {
			in.typeDecl = in.typeDecl[:nDecl] // types first mentioned now are not part of the program
			continue
		}
		if tv, err := types.Eval(in.Fset, in.Pkg, in.File.End()-1, expr); err == nil && tv.Type != nil {
			k := types.TypeString(tv.Type, qual)
			if _, dup := byGo[k]; !dup {
				byGo[k] = t
			}
		}
	}
	e.TypeTermHook = func(t types.Type) (smt.T, bool) {
		if st, ok := byGo[types.TypeString(t, qual)]; ok {
			return ctx.typeVal(st).T, true
		}
		return smt.T{}, false
	}
	arrLens := map[string]smt.T{}
	for _, t := range sortedFactTypes(in.Path.Facts) {
		if f := in.Path.Facts[t]; f.Kind == geval.KArray {
			arrLens[fmt.Sprintf("%sArrLen%d", Mark, t.ID)] = ctx.arrayLen(t)
		}
	}
	vc.ArrayLenHook = func(e *vc.Engine, a *types.Array) (smt.T, bool) {
		// the array's length constant is found through the declared types: every
		// symbolic array type has its own constant, all with value 3; without
		// more information any array type of the prelude maps to the first one
		for _, t := range sortedFactTypes(in.Path.Facts) {
			if f := in.Path.Facts[t]; f.Kind == geval.KArray {
				n := ctx.arrayLen(t)
				return n, true
			}
		}
		return smt.T{}, false
	}
	_ = arrLens
	pkgName := in.Pkg.Name()
	// helper contracts
	var hn []string
	for n := range in.Helpers {
		hn = append(hn, n)
	}
	sort.Strings(hn)
	var targets []string
	relGen, relArgs := in.Con, in.GenArgs
	var relSigPs, relSigRs []string
	for _, n := range hn {
		h := in.Helpers[n]
		key := pkgName + "." + n
		fam, bind, err := in.B.Family(h.Plugin, len(h.Typs), in.kind0(h.Typs), sameTypes(h.Typs))
		if err != nil {
			return nil, err
		}
		args, err := BindRequest(bind, h.Typs)
		if err != nil {
			return nil, err
		}
		sigs := in.pickGuarded(fam.Attrs["o-sig"], args, nil)
		if len(sigs) != 1 {
			return nil, fmt.Errorf("contract of %s has %d applicable o-sig attributes (want 1)", fam.Key, len(sigs))
		}
		ps, rs, err := sigNames(sigs[0])
		if err != nil {
			return nil, err
		}
		fn := e.Funcs[key]
		if fn == nil {
			return nil, fmt.Errorf("helper %s is not declared in the schematic program", n)
		}
		if fn.Decl.Body != nil {
			// the function this path defines: parameter names come from the emitted text
			sigPs := ps
			ps = nil
			for _, fl := range fn.Decl.Type.Params.List {
				for _, nm := range fl.Names {
					ps = append(ps, nm.Name)
				}
			}
			// the O-clauses name parameters as o-sig does; the emitted text may differ
			for i, sn := range sigPs {
				if i < len(ps) && ps[i] != sn {
					cs.Ghost[pkgName+"."+sn] = &spec.Ident{Name: ps[i]}
				}
			}
			targets = append(targets, key)
			relGen, relArgs, relSigPs, relSigRs = fam, args, sigPs, rs
		}
		c, err := in.oClauses(key, fam, ps, rs, in.Path.Decisions, args, fn.Decl.Body == nil)
		if err != nil {
			return nil, err
		}
		cs.Funcs[key] = c
		e.ExtraBound[key] = ctx.genBindings(args)
	}
	// callee holes (results of contract-bearing generator functions)
	var cn []string
	for n := range in.Callees {
		cn = append(cn, n)
	}
	sort.Strings(cn)
	for _, n := range cn {
		h := in.Callees[n]
		gc := in.B.Contracts.Funcs[h.Callee]
		key := pkgName + "." + n
		var ps []string
		for _, w := range strings.Fields(strings.Split(gc.Attr("o-operands"), "->")[0]) {
			ps = append(ps, strings.SplitN(w, ":", 2)[0])
		}
		args := map[string]geval.Value{}
		for i, pn := range gc.Params {
			if i < len(h.Args) {
				args[pn] = h.Args[i]
			}
		}
		c, err := in.oClauses(key, gc, ps, []string{"r"}, nil, args, true)
		if err != nil {
			return nil, err
		}
		if strings.TrimSpace(strings.Split(gc.Attr("o-operands")+"->", "->")[1]) == "" {
			c.Results = nil
		}
		cs.Funcs[key] = c
		e.ExtraBound[key] = ctx.genBindings(args)
	}
	if in.Wrapper != "" {
		key := pkgName + "." + in.Wrapper
		fn := e.Funcs[key]
		var ps []string
		for _, fl := range fn.Decl.Type.Params.List {
			for _, nm := range fl.Names {
				ps = append(ps, nm.Name)
			}
		}
		var rs []string
		if in.RetType != "" {
			rs = []string{"r"}
		}
		c, err := in.oClauses(key, in.Con, ps, rs, in.Path.Decisions, in.GenArgs, false)
		if err != nil {
			return nil, err
		}
		// operands are safe to evaluate (contract: requires safe(this))
		for _, op := range in.Operands {
			if op.Class == "Star" || op.Class == "Amp" {
				x := spec.MustParse(op.GoName + " != nil")
				c.Requires = append(c.Requires, contract.Clause{Text: op.GoName + " != nil", Expr: x, File: in.Con.File, Line: in.Con.Line, Name: "safe-" + op.Name})
			}
			cs.Ghost[pkgName+"."+op.Name] = spec.MustParse(op.Spec)
			// an lvalue operand written through a pointer: the wrapper may write that cell
			if op.Name == strings.TrimSpace(in.Con.Attr("o-assigns-operand")) && op.Class == "Star" {
				c.Assigns = append(c.Assigns, op.Spec)
			}
		}
		// o-operands-separate: operands passed by address are different cells (the
		// property's hypothesis that destination and source share no memory)
		if len(in.Con.Attrs["o-operands-separate"]) > 0 {
			var stars []Operand
			for _, op := range in.Operands {
				if op.Class == "Star" {
					stars = append(stars, op)
				}
			}
			for i := 0; i < len(stars); i++ {
				for j := i + 1; j < len(stars); j++ {
					t := stars[i].GoName + " != " + stars[j].GoName
					c.Requires = append(c.Requires, contract.Clause{Text: t, Expr: spec.MustParse(t), File: in.Con.File, Line: in.Con.Line, Name: "separate-operands"})
				}
			}
		}
		cs.Funcs[key] = c
		e.ExtraBound[key] = map[string]vc.Val{}
		targets = append(targets, key)
	}
	// the product program (relational clauses)
	if in.RelFunc != "" {
		key := pkgName + "." + in.RelFunc
		fn := e.Funcs[key]
		if fn == nil {
			return nil, fmt.Errorf("product function %s is not declared", in.RelFunc)
		}
		var ps, rs []string
		for _, fl := range fn.Decl.Type.Params.List {
			for _, nm := range fl.Names {
				ps = append(ps, nm.Name)
			}
		}
		if fn.Decl.Type.Results != nil {
			for _, fl := range fn.Decl.Type.Results.List {
				for _, nm := range fl.Names {
					rs = append(rs, nm.Name)
				}
			}
		}
		c, err := in.oClausesP(key, relGen, ps, rs, in.Path.Decisions, relArgs, false, "o-rel-")
		if err != nil {
			return nil, err
		}
		// names of the original function's parameters / results, as the clauses use them
		orig := e.Funcs[pkgName+"."+in.RelOf]
		for _, suf := range []string{SufA, SufB} {
			if orig != nil {
				i := 0
				for _, fl := range orig.Decl.Type.Params.List {
					for _, nm := range fl.Names {
						if i < len(relSigPs) && relSigPs[i] != nm.Name {
							cs.Ghost[pkgName+"."+relSigPs[i]+suf] = &spec.Ident{Name: nm.Name + suf}
						}
						i++
					}
				}
			}
			for _, op := range in.Operands {
				if op.Class == "Star" || op.Class == "Amp" {
					x := spec.MustParse(op.GoName + suf + " != nil")
					c.Requires = append(c.Requires, contract.Clause{Text: op.GoName + suf + " != nil", Expr: x, File: in.Con.File, Line: in.Con.Line, Name: "safe-" + op.Name})
				}
				cs.Ghost[pkgName+"."+op.Name+suf] = spec.MustParse(op.Spec + suf)
			}
			if in.Wrapper != "" && in.RetType != "" {
				cs.Ghost[pkgName+".r"+suf] = &spec.Ident{Name: Mark + "r" + suf}
			}
			if in.Wrapper == "" {
				// results: o-sig names them; the product names them after the emitted text (or Ħres<i>)
				half := len(rs) / 2
				off := 0
				if suf == SufB {
					off = half
				}
				for i, sn := range relSigRs {
					if i < half && rs[off+i] != sn+suf {
						cs.Ghost[pkgName+"."+sn+suf] = &spec.Ident{Name: rs[off+i]}
					}
				}
			}
		}
		cs.Funcs[key] = c
		e.ExtraBound[key] = map[string]vc.Val{}
		targets = append(targets, key)
		same := &contract.Func{Key: pkgName + "." + Mark + "same", Params: []string{"b"}, LoopInv: map[int][]contract.Clause{}, Attrs: map[string][]string{"pure": {"true"}}, File: in.Con.File, Line: in.Con.Line}
		same.Requires = []contract.Clause{{Text: "b", Expr: spec.MustParse("b"), File: in.Con.File, Line: in.Con.Line, Name: "lockstep"}}
		cs.Funcs[same.Key] = same
	}
	// closures returned by emitted functions: o-closure names the literal's
	// results, o-closure-ensures are checked at every return inside it
	vc.FuncLitHook = func(e *vc.Engine, st *vc.State, x *ast.FuncLit) (vc.Val, bool, error) {
		gen := in.Con
		closureArgs := map[string]map[string]geval.Value{}
		if cur := e.CurrentKey(); cur != "" {
			for n, h := range in.Helpers {
				if pkgName+"."+n == cur {
					if fam, bind, err := in.B.Family(h.Plugin, len(h.Typs), in.kind0(h.Typs), sameTypes(h.Typs)); err == nil {
						gen = fam
						if a, err := BindRequest(bind, h.Typs); err == nil {
							closureArgs[fam.Key] = a
						}
					}
				}
			}
		}
		if len(gen.Attrs["o-closure-ensures"]) == 0 {
			return vc.Val{}, false, nil
		}
		cargs := in.GenArgs
		if gen != in.Con {
			cargs = closureArgs[gen.Key]
		}
		var cls []contract.Clause
		for _, t := range in.pickGuarded(gen.Attrs["o-closure-ensures"], cargs, in.Path.Decisions) {
			name := ""
			t = strings.TrimSpace(t)
			if strings.HasPrefix(t, "[") {
				if j := strings.Index(t, "]"); j > 0 {
					name, t = t[1:j], strings.TrimSpace(t[j+1:])
				}
			}
			x, err := spec.Parse(t)
			if err != nil {
				return vc.Val{}, true, fmt.Errorf("%s: o-closure-ensures of %s: %v", gen.File, gen.Key, err)
			}
			cls = append(cls, contract.Clause{Text: t, Expr: x, File: gen.File, Line: gen.Line, Name: name})
		}
		results := strings.Fields(gen.Attr("o-closure"))
		// a closure that returns another closure is plumbing: the clauses are
		// checked where the innermost literal returns
		nested := false
		ast.Inspect(x.Body, func(n ast.Node) bool {
			if _, ok := n.(*ast.FuncLit); ok {
				nested = true
			}
			return !nested
		})
		if nested {
			cls = nil
		}
		var invs []contract.Clause
		for _, t := range in.pickGuarded(gen.Attrs["o-closure-inv"], cargs, in.Path.Decisions) {
			name := ""
			t = strings.TrimSpace(t)
			if strings.HasPrefix(t, "[") {
				if j := strings.Index(t, "]"); j > 0 {
					name, t = t[1:j], strings.TrimSpace(t[j+1:])
				}
			}
			x, err := spec.Parse(t)
			if err != nil {
				return vc.Val{}, true, fmt.Errorf("%s: o-closure-inv of %s: %v", gen.File, gen.Key, err)
			}
			invs = append(invs, contract.Clause{Text: t, Expr: x, File: gen.File, Line: gen.Line, Name: name})
		}
		if nested {
			invs = nil
		}
		if err := e.VerifyFuncLitInv(st, x, results, cls, invs); err != nil {
			return vc.Val{}, true, err
		}
		v := e.Fresh("closure", smt.V)
		st.Assume(smt.Neq(v, vc.NilV))
		return vc.Val{T: v, Ty: in.Info.TypeOf(x)}, true, nil
	}
	// O-clauses may apply a pure helper by its plugin's name, e.g. contains(list, x):
	// the application is the helper's uninterpreted function, and its contract is
	// available for all arguments (the helper satisfies it by its own proof).
	axiomDone := map[string]bool{}
	e.SpecFallback = func(e *vc.Engine, env *vc.SpecEnv, x *spec.Call) (vc.Val, bool, error) {
		var found []string
		for n, h := range in.Helpers {
			if h.Plugin == x.Fun {
				found = append(found, n)
			}
		}
		if len(found) != 1 {
			return vc.Val{}, false, nil
		}
		key := pkgName + "." + found[0]
		hc := cs.Funcs[key]
		fn := e.Funcs[key]
		if hc == nil || fn == nil || len(hc.Attrs["pure"]) == 0 {
			return vc.Val{}, false, nil
		}
		sig := fn.Obj.Type().(*types.Signature)
		if sig.Results().Len() != 1 || sig.Params().Len() != len(x.Args) {
			return vc.Val{}, false, fmt.Errorf("spec: helper %s applied to %d arguments", x.Fun, len(x.Args))
		}
		var ts []smt.T
		var sorts []smt.Sort
		for _, a := range x.Args {
			v, err := e.EvalSpec(env, a)
			if err != nil {
				return vc.Val{}, true, err
			}
			ts = append(ts, v.T)
			sorts = append(sorts, v.T.Sort)
		}
		rt := sig.Results().At(0).Type()
		fname := smt.Ident("fn!" + key)
		e.Decls.Fun(fname, sorts, vc.SortOf(rt))
		if !axiomDone[key] {
			axiomDone[key] = true
			// forall params :: ensures[r := f(params)]
			bound := map[string]vc.Val{}
			var bs []smt.Bound
			var ps []smt.T
			for i := 0; i < sig.Params().Len(); i++ {
				p := sig.Params().At(i)
				nm := fmt.Sprintf("hp%d?%s", i, smt.Ident(found[0]))
				bs = append(bs, smt.Bound{Name: nm, Sort: vc.SortOf(p.Type())})
				t := smt.T{S: nm, Sort: vc.SortOf(p.Type())}
				ps = append(ps, t)
				if i < len(hc.Params) {
					bound[hc.Params[i]] = vc.Val{T: t, Ty: p.Type()}
				}
			}
			app := smt.App(vc.SortOf(rt), fname, ps...)
			if len(hc.Results) == 1 {
				bound[hc.Results[0]] = vc.Val{T: app, Ty: rt}
			}
			for k, v := range e.ExtraBound[key] {
				if _, shadow := bound[k]; !shadow {
					bound[k] = v
				}
			}
			cenv := &vc.SpecEnv{E: e, St: env.St, Old: env.St, Bound: bound, Callee: true, Pkg: pkgName}
			for _, en := range hc.Ensures {
				v, err := e.EvalSpec(cenv, en.Expr)
				if err != nil {
					return vc.Val{}, true, err
				}
				e.Axioms = append(e.Axioms, smt.Forall(bs, v.T, app))
			}
		}
		return vc.Val{T: smt.App(vc.SortOf(rt), fname, ts...), Ty: rt}, true, nil
	}
	// <arg>_p<i>: the user's name of parameter i of a signature-typed generator argument
	for an, av := range in.GenArgs {
		var sigs []*geval.SymType
		switch x := av.(type) {
		case *geval.SymType:
			sigs = []*geval.SymType{x}
		case *geval.SliceVal:
			for _, el := range x.Elems {
				if t, ok := el.(*geval.SymType); ok {
					sigs = append(sigs, t)
				}
			}
		}
		for si, t := range sigs {
			f := in.fact(t)
			if f == nil || f.Kind != geval.KSignature || f.Params == nil {
				continue
			}
			base := an
			if _, isSlice := av.(*geval.SliceVal); isSlice {
				base = fmt.Sprintf("%s%d", an, si)
			}
			for i, v := range f.Params.Vars {
				if n := in.renderTmpl(v.NameT, nil); n != "" {
					cs.Ghost[pkgName+"."+fmt.Sprintf("%s_p%d", base, i)] = &spec.Ident{Name: n}
				}
			}
			// parameters of the function a curried signature returns
			if f.Results != nil && len(f.Results.Vars) == 1 {
				if rf := in.fact(f.Results.Vars[0].Type); rf != nil && rf.Kind == geval.KSignature && rf.Params != nil {
					for i, v := range rf.Params.Vars {
						if n := in.renderTmpl(v.NameT, nil); n != "" {
							cs.Ghost[pkgName+"."+fmt.Sprintf("%s_q%d", base, i)] = &spec.Ident{Name: n}
						}
					}
				}
			}
		}
	}
	if len(targets) == 0 {
		return nil, fmt.Errorf("the path emits no function that a contract describes")
	}
	sort.Strings(targets)
	for _, key := range targets {
		// O-clauses written for the generator function under analysis use its own parameter names
		for k, v := range ctx.genBindings(in.GenArgs) {
			e.ExtraBound[key][k] = v
		}
		if err := e.VerifyFunc(key, vc.VerifyOpts{}); err != nil {
			return e, err
		}
	}
	// o-lemma: order <type parameter>: C03's claims about the specification
	// function itself, for the type shape of this path: values in {-1,0,1},
	// antisymmetric, transitive, zero exactly on EqTop. Components are covered by
	// the induction hypothesis (the axioms of CmpSpec / userCompare).
	for _, lm := range in.pickGuarded(in.Con.Attrs["o-lemma"], in.GenArgs, in.Path.Decisions) {
		ws := strings.Fields(lm)
		if len(ws) != 2 || ws[0] != "order" {
			return e, fmt.Errorf("%s: o-lemma: want 'order <type parameter>'", in.Con.File)
		}
		t, ok := in.GenArgs[ws[1]].(*geval.SymType)
		if !ok {
			return e, fmt.Errorf("%s: o-lemma: %s is not a type parameter", in.Con.File, ws[1])
		}
		if err := ctx.orderLemmas(pkgName+"."+Mark+"spec", t); err != nil {
			return e, err
		}
	}
	return e, nil
}

func (c *Ctx) orderLemmas(fn string, t *geval.SymType) error {
	e := c.E
	st := e.LemmaState(fn)
	env := &vc.SpecEnv{E: e, St: st, Old: st, Bound: map[string]vc.Val{}}
	srt := c.SortOfSym(t)
	x, y, z := e.Fresh("lx", srt), e.Fresh("ly", srt), e.Fresh("lz", srt)
	cmp := func(a, b smt.T) (smt.T, error) { return c.CmpTop(env, t, a, b, 0) }
	cxy, err := cmp(x, y)
	if err != nil {
		return err
	}
	cyx, _ := cmp(y, x)
	cyz, _ := cmp(y, z)
	cxz, _ := cmp(x, z)
	eq, err := c.EqTop(env, t, x, y, 0)
	if err != nil {
		return err
	}
	zero, one := smt.IntLit(0), smt.IntLit(1)
	// the axioms the lemmas rest on must be satisfiable together with a pair of unequal values
	pst := st.Clone()
	pst.Assume(smt.Neq(cxy, zero))
	e.Probe(pst, "lemma-axioms")
	e.ObligeLemma(st, fn, "result-is-minus-one-zero-or-one", smt.And(smt.Le(smt.Neg(one), cxy), smt.Le(cxy, one)))
	e.ObligeLemma(st, fn, "antisymmetric", smt.Eq(cxy, smt.Neg(cyx)))
	e.ObligeLemma(st, fn, "transitive", smt.Implies(smt.And(smt.Le(cxy, zero), smt.Le(cyz, zero)), smt.Le(cxz, zero)))
	e.ObligeLemma(st, fn, "transitive-strict", smt.And(
		smt.Implies(smt.And(smt.Le(cxy, zero), smt.Lt(cyz, zero)), smt.Lt(cxz, zero)),
		smt.Implies(smt.And(smt.Lt(cxy, zero), smt.Le(cyz, zero)), smt.Lt(cxz, zero))))
	e.ObligeLemma(st, fn, "zero-iff-Equal", smt.Eq(smt.Eq(cxy, zero), eq))
	return nil
}

// CheckHeader: the emitted function's signature is the one its callers assume.
func (in *Instance) CheckHeader() []string {
	var out []string
	var hn []string
	for n := range in.Helpers {
		hn = append(hn, n)
	}
	sort.Strings(hn)
	for _, n := range hn {
		obj := in.Pkg.Scope().Lookup(n)
		exp := in.Pkg.Scope().Lookup(Mark + "sig_" + n)
		if obj == nil || exp == nil {
			continue
		}
		a, ok1 := obj.Type().(*types.Signature)
		b, ok2 := exp.Type().(*types.Signature)
		if !ok1 || !ok2 {
			continue
		}
		if !sameSig(a, b) {
			out = append(out, fmt.Sprintf("emitted header of %s is %s, callers assume %s", n, a, b))
		}
	}
	return out
}

// CheckHeaderParams compares parameter lists only.
func (in *Instance) CheckHeaderParams() []string {
	var out []string
	var hn []string
	for n := range in.Helpers {
		hn = append(hn, n)
	}
	sort.Strings(hn)
	for _, n := range hn {
		obj := in.Pkg.Scope().Lookup(n)
		exp := in.Pkg.Scope().Lookup(Mark + "sig_" + n)
		if obj == nil || exp == nil {
			continue
		}
		a, ok1 := obj.Type().(*types.Signature)
		b, ok2 := exp.Type().(*types.Signature)
		if !ok1 || !ok2 {
			continue
		}
		same := a.Params().Len() == b.Params().Len() && a.Variadic() == b.Variadic()
		for i := 0; same && i < a.Params().Len(); i++ {
			same = types.Identical(a.Params().At(i).Type(), b.Params().At(i).Type())
		}
		if !same {
			out = append(out, fmt.Sprintf("emitted parameters of %s are %s, the call passes %s", n, a.Params(), b.Params()))
		}
	}
	return out
}

func sameSig(a, b *types.Signature) bool {
	if a.Params().Len() != b.Params().Len() || a.Results().Len() != b.Results().Len() || a.Variadic() != b.Variadic() {
		return false
	}
	for i := 0; i < a.Params().Len(); i++ {
		if !types.Identical(a.Params().At(i).Type(), b.Params().At(i).Type()) {
			return false
		}
	}
	for i := 0; i < a.Results().Len(); i++ {
		if !types.Identical(a.Results().At(i).Type(), b.Results().At(i).Type()) {
			return false
		}
	}
	return true
}

var userNameRe = regexp.MustCompile("^" + Mark + `[pr]\d+_\d+$`)

// CheckCapture: a literal identifier of the emitted text (f, err, v, ...) that
// refers to a local declaration must not be captured by a binder whose name the
// user chooses (parameter names copied from the user's function type). Every
// user-named binder declared in a scope between the declaration and the use is
// a possible capture: the emitted text is correct only if the user's name
// differs from the literal.
func (in *Instance) CheckCapture() []string {
	var out []string
	seen := map[string]bool{}
	for id, obj := range in.Info.Uses {
		if strings.HasPrefix(id.Name, Mark) {
			continue
		}
		v, ok := obj.(*types.Var)
		if !ok || v.Parent() == nil || v.Parent() == in.Pkg.Scope() || v.Parent() == types.Universe {
			continue
		}
		sc := in.Pkg.Scope().Innermost(id.Pos())
		for sc != nil && sc != v.Parent() {
			for _, n := range sc.Names() {
				if userNameRe.MatchString(n) {
					msg := fmt.Sprintf("the identifier %q is used under a binder whose name the user chooses (%s): a parameter called %q captures it", id.Name, n, id.Name)
					if !seen[msg] {
						seen[msg] = true
						out = append(out, msg)
					}
				}
			}
			sc = sc.Parent()
		}
	}
	sort.Strings(out)
	return out
}
