// Package contract reads the //@ contract clauses kept in the comment-only
// files contracts_verif.go (build tag verif) next to the code in /repo.
package contract

import (
	"fmt"
	"go/ast"
	"go/parser"
	"go/token"
	"go/types"
	"os"
	"sort"
	"strconv"
	"strings"

	"gvc/internal/spec"
)

type Clause struct {
	Text string
	Expr spec.Expr
	File string
	Line int
	Name string // optional label: "ensures [name] expr"
	Pkg  string
}

// Func is the contract of one function.
type Func struct {
	Key         string // pkg.Recv.Name or pkg.Name
	Header      string
	Recv        string   // receiver variable name ("" if none)
	Params      []string // parameter names in order
	Results     []string // result names in order (from the header in the contract)
	ResultTypes []string // result type expressions as written in the header
	ParamTypes  []string
	Requires    []Clause
	Ensures     []Clause
	Assigns     []string
	Assigned    bool             // an assigns clause was given (possibly empty)
	LoopInv     map[int][]Clause // loop ordinal (1-based, source order) -> invariants
	Attrs       map[string][]string
	Extern      bool // trusted external contract (stdlib / vendored)
	File        string
	Line        int
}

func (f *Func) Attr(k string) string {
	if v := f.Attrs[k]; len(v) > 0 {
		return v[0]
	}
	return ""
}

// AttrList returns every value of an attribute.
func (f *Func) AttrList(k string) []string { return f.Attrs[k] }

// Set is all contracts of one package (or several).
type Set struct {
	Funcs     map[string]*Func
	Ghost     map[string]spec.Expr // package-level abbreviations, keyed pkg.name
	Axioms    []Clause
	Invs      map[string][]Clause  // type name (pkg.Type) -> invariants
	GhostFuns map[string]*GhostFun // parameterised abbreviations, keyed pkg.name
}

// GhostFun is "ghost-fun name(a, b) = expr".
type GhostFun struct {
	Params []string
	Body   spec.Expr
}

func NewSet() *Set {
	return &Set{Funcs: map[string]*Func{}, Ghost: map[string]spec.Expr{}, Invs: map[string][]Clause{}, GhostFuns: map[string]*GhostFun{}}
}

func (s *Set) Keys() []string {
	var ks []string
	for k := range s.Funcs {
		ks = append(ks, k)
	}
	sort.Strings(ks)
	return ks
}

// KeyOf computes the contract key of a declared function.
func KeyOf(pkgName string, fd *ast.FuncDecl) string {
	if fd.Recv != nil && len(fd.Recv.List) > 0 {
		t := fd.Recv.List[0].Type
		if st, ok := t.(*ast.StarExpr); ok {
			t = st.X
		}
		if id, ok := t.(*ast.Ident); ok {
			return pkgName + "." + id.Name + "." + fd.Name.Name
		}
		if se, ok := t.(*ast.SelectorExpr); ok {
			if x, ok := se.X.(*ast.Ident); ok {
				return x.Name + "." + se.Sel.Name + "." + fd.Name.Name
			}
		}
	}
	return pkgName + "." + fd.Name.Name
}

// ParseFile reads one contracts_verif.go file.
func (s *Set) ParseFile(path string) error {
	data, err := os.ReadFile(path)
	if err != nil {
		return err
	}
	lines := strings.Split(string(data), "\n")
	pkgName := ""
	type raw struct {
		text string
		line int
	}
	var clauses []raw
	for i, ln := range lines {
		t := strings.TrimSpace(ln)
		if strings.HasPrefix(t, "package ") && pkgName == "" {
			pkgName = strings.TrimSpace(strings.TrimPrefix(t, "package "))
			continue
		}
		if !strings.HasPrefix(t, "//@") {
			continue
		}
		body := strings.TrimPrefix(t, "//@")
		if strings.TrimSpace(body) == "" {
			continue
		}
		// continuation: three or more spaces after //@
		if strings.HasPrefix(body, "   ") && len(clauses) > 0 {
			clauses[len(clauses)-1].text += " " + strings.TrimSpace(body)
			continue
		}
		clauses = append(clauses, raw{strings.TrimSpace(body), i + 1})
	}
	if pkgName == "" {
		return fmt.Errorf("%s: no package clause", path)
	}
	var cur *Func
	mk := func(text string, line int) (Clause, error) {
		name := ""
		if strings.HasPrefix(text, "[") {
			if j := strings.Index(text, "]"); j > 0 {
				name = text[1:j]
				text = strings.TrimSpace(text[j+1:])
			}
		}
		e, err := spec.Parse(text)
		if err != nil {
			return Clause{}, fmt.Errorf("%s:%d: %v", path, line, err)
		}
		return Clause{Text: text, Expr: e, File: path, Line: line, Name: name, Pkg: pkgName}, nil
	}
	for _, c := range clauses {
		word, rest := c.text, ""
		if j := strings.IndexAny(c.text, " \t"); j > 0 {
			word, rest = c.text[:j], strings.TrimSpace(c.text[j+1:])
		}
		switch word {
		case "func", "extern":
			hdr := rest
			ext := word == "extern"
			if ext {
				hdr = strings.TrimSpace(strings.TrimPrefix(rest, "func"))
				hdr = "func " + hdr
			} else {
				hdr = "func " + rest
			}
			f, err := parseHeader(pkgName, hdr, ext)
			if err != nil {
				return fmt.Errorf("%s:%d: %v", path, c.line, err)
			}
			f.File, f.Line, f.Extern = path, c.line, ext
			if _, dup := s.Funcs[f.Key]; dup {
				return fmt.Errorf("%s:%d: duplicate contract for %s", path, c.line, f.Key)
			}
			s.Funcs[f.Key] = f
			cur = f
		case "requires", "ensures":
			if cur == nil {
				return fmt.Errorf("%s:%d: %s outside a func block", path, c.line, word)
			}
			cl, err := mk(rest, c.line)
			if err != nil {
				return err
			}
			if word == "requires" {
				cur.Requires = append(cur.Requires, cl)
			} else {
				cur.Ensures = append(cur.Ensures, cl)
			}
		case "assigns":
			if cur == nil {
				return fmt.Errorf("%s:%d: assigns outside a func block", path, c.line)
			}
			cur.Assigned = true
			for _, a := range splitTop(rest) {
				a = strings.TrimSpace(a)
				if a != "" && a != "nothing" {
					cur.Assigns = append(cur.Assigns, a)
				}
			}
		case "loop":
			if cur == nil {
				return fmt.Errorf("%s:%d: loop outside a func block", path, c.line)
			}
			// loop <k>: invariant <P>
			j := strings.Index(rest, ":")
			if j < 0 {
				return fmt.Errorf("%s:%d: loop clause needs 'loop k: invariant P'", path, c.line)
			}
			k, err := strconv.Atoi(strings.TrimSpace(rest[:j]))
			if err != nil {
				return fmt.Errorf("%s:%d: bad loop ordinal", path, c.line)
			}
			r2 := strings.TrimSpace(rest[j+1:])
			if strings.HasPrefix(r2, "decreases") {
				cur.Attrs[fmt.Sprintf("loop%d.decreases", k)] = append(cur.Attrs[fmt.Sprintf("loop%d.decreases", k)], strings.TrimSpace(strings.TrimPrefix(r2, "decreases")))
				continue
			}
			if !strings.HasPrefix(r2, "invariant") {
				return fmt.Errorf("%s:%d: loop clause needs 'invariant'", path, c.line)
			}
			cl, err := mk(strings.TrimSpace(strings.TrimPrefix(r2, "invariant")), c.line)
			if err != nil {
				return err
			}
			cur.LoopInv[k] = append(cur.LoopInv[k], cl)
		case "ghost":
			j := strings.Index(rest, "=")
			if j < 0 {
				return fmt.Errorf("%s:%d: ghost needs name = expr", path, c.line)
			}
			e, err := spec.Parse(strings.TrimSpace(rest[j+1:]))
			if err != nil {
				return fmt.Errorf("%s:%d: %v", path, c.line, err)
			}
			s.Ghost[pkgName+"."+strings.TrimSpace(rest[:j])] = e
		case "ghost-fun":
			j := strings.Index(rest, "=")
			k := strings.Index(rest, "(")
			l := strings.Index(rest, ")")
			if j < 0 || k < 0 || l < k || l > j {
				return fmt.Errorf("%s:%d: ghost-fun needs name(params) = expr", path, c.line)
			}
			e, err := spec.Parse(strings.TrimSpace(rest[j+1:]))
			if err != nil {
				return fmt.Errorf("%s:%d: %v", path, c.line, err)
			}
			gf := &GhostFun{Body: e}
			for _, pn := range strings.Split(rest[k+1:l], ",") {
				if pn = strings.TrimSpace(pn); pn != "" {
					gf.Params = append(gf.Params, pn)
				}
			}
			s.GhostFuns[pkgName+"."+strings.TrimSpace(rest[:k])] = gf
		case "axiom":
			cl, err := mk(rest, c.line)
			if err != nil {
				return err
			}
			s.Axioms = append(s.Axioms, cl)
		case "inv":
			// inv <Type>: P
			j := strings.Index(rest, ":")
			if j < 0 {
				return fmt.Errorf("%s:%d: inv needs 'inv Type: P'", path, c.line)
			}
			cl, err := mk(strings.TrimSpace(rest[j+1:]), c.line)
			if err != nil {
				return err
			}
			tn := pkgName + "." + strings.TrimSpace(rest[:j])
			s.Invs[tn] = append(s.Invs[tn], cl)
		default:
			// free-form attribute "<word>: text" or "<word> text"
			if cur == nil {
				return fmt.Errorf("%s:%d: unknown top-level clause %q", path, c.line, word)
			}
			k := strings.TrimSuffix(word, ":")
			cur.Attrs[k] = append(cur.Attrs[k], rest)
		}
	}
	return nil
}

func parseHeader(pkgName, hdr string, ext bool) (*Func, error) {
	src := "package p\n" + hdr + " {}\n"
	// extern headers may use a dotted name: func os.Create(name string) (f, err)
	dotted := ""
	if ext {
		// func pkg.Name(...) or func (r T) Name(...)
		h := strings.TrimSpace(strings.TrimPrefix(hdr, "func"))
		if !strings.HasPrefix(h, "(") {
			j := strings.Index(h, "(")
			if j < 0 {
				return nil, fmt.Errorf("bad extern header %q", hdr)
			}
			dotted = h[:j]
			src = "package p\nfunc " + strings.ReplaceAll(dotted, ".", "_DOT_") + h[j:] + " {}\n"
		}
	}
	fset := token.NewFileSet()
	f, err := parser.ParseFile(fset, "hdr.go", src, 0)
	if err != nil {
		return nil, fmt.Errorf("cannot parse header %q: %v", hdr, err)
	}
	fd, ok := f.Decls[0].(*ast.FuncDecl)
	if !ok {
		return nil, fmt.Errorf("header %q is not a function", hdr)
	}
	fn := &Func{Header: hdr, LoopInv: map[int][]Clause{}, Attrs: map[string][]string{}}
	if dotted != "" {
		fn.Key = dotted
	} else {
		fn.Key = KeyOf(pkgName, fd)
	}
	if fd.Recv != nil && len(fd.Recv.List) > 0 && len(fd.Recv.List[0].Names) > 0 {
		fn.Recv = fd.Recv.List[0].Names[0].Name
	}
	for _, fl := range fd.Type.Params.List {
		if len(fl.Names) == 0 {
			fn.Params = append(fn.Params, "_")
			fn.ParamTypes = append(fn.ParamTypes, types.ExprString(fl.Type))
		}
		for _, n := range fl.Names {
			fn.Params = append(fn.Params, n.Name)
			fn.ParamTypes = append(fn.ParamTypes, types.ExprString(fl.Type))
		}
	}
	if fd.Type.Results != nil {
		for _, fl := range fd.Type.Results.List {
			if len(fl.Names) == 0 {
				fn.Results = append(fn.Results, fmt.Sprintf("result%d", len(fn.Results)))
				fn.ResultTypes = append(fn.ResultTypes, types.ExprString(fl.Type))
			}
			for _, n := range fl.Names {
				fn.Results = append(fn.Results, n.Name)
				fn.ResultTypes = append(fn.ResultTypes, types.ExprString(fl.Type))
			}
		}
	}
	return fn, nil
}

// splitTop splits at commas that are not inside parentheses or brackets.
func splitTop(s string) []string {
	var out []string
	depth, start := 0, 0
	for i, c := range s {
		switch c {
		case '(', '[':
			depth++
		case ')', ']':
			depth--
		case ',':
			if depth == 0 {
				out = append(out, s[start:i])
				start = i + 1
			}
		}
	}
	return append(out, s[start:])
}
