// Package vc is the verification-condition generator: forward symbolic
// execution of a typed Go function (real repository code at Layer D, emitted
// schematic code at Layer O) with path splitting, loops cut at invariants, calls
// replaced by callee contracts, and one SMT query per obligation.
package vc

import (
	"fmt"
	"go/ast"
	"go/token"
	"go/types"
	"sort"
	"strings"

	"gvc/internal/contract"
	"gvc/internal/smt"
	"gvc/internal/spec"
)

// Val is a symbolic value with its static Go type (nil for spec-only values).
type Val struct {
	T  smt.T
	Ty types.Type
}

// Obligation is one proof obligation.
type Obligation struct {
	Name    string // stable: function / kind : detail  (no line numbers)
	ID      string // Name + "#" + path ordinal (unique within a run)
	Kind    string // post, pre, inv-init, inv-step, safety, frame, ...
	Func    string
	Pos     token.Position
	Assumes []smt.T
	Goal    smt.T
	Decls   *smt.Decls
	Extra   string // extra axioms text (string literals etc.)
	Note    string
	Res     smt.Result
	// ExpectSat marks a vacuity probe: the assumptions must NOT be refutable
	// (status unsat means the contract's preconditions or axioms are contradictory).
	ExpectSat bool
}

// Fn is a function known to the engine (under verification or callable).
type Fn struct {
	Key  string
	Decl *ast.FuncDecl
	Info *types.Info
	Pkg  *types.Package
	Obj  *types.Func
}

// SpecFunc implements a built-in specification function.
type SpecFunc func(e *Engine, env *SpecEnv, args []spec.Expr) (Val, error)

// CallHook lets a client (Layer O) give meaning to calls of placeholder functions.
type CallHook func(e *Engine, st *State, call *ast.CallExpr, name string, args []Val) (vals []Val, handled bool, err error)

type Engine struct {
	Fset      *token.FileSet
	Contracts *contract.Set
	Funcs     map[string]*Fn // by contract key
	FuncByObj map[*types.Func]*Fn
	Decls     *smt.Decls
	Obls      []*Obligation
	Specs     map[string]SpecFunc
	Hook      CallHook
	// SpecFallback resolves spec-level function names the engine does not know (client hook).
	SpecFallback func(e *Engine, env *SpecEnv, x *spec.Call) (Val, bool, error)
	Axioms       []smt.T // instantiated global axioms (from //@ axiom and string literals)
	Errors       []string
	// UsedContracts: contracts applied at call sites (the callers were checked against these, not against bodies)
	UsedContracts map[string]bool

	fresh   int
	litSig  *types.Signature // signature of the function literal being executed
	litArgs [][]Val          // arguments of the enclosing function literals, outermost first
	finals  map[string]Val   // values of mutated arguments after the call being applied
	// ArgOwnership (Layer D): maps and slices are modelled as values; the model is kept honest by
	// obligations that an in-place write goes to a parameter only under "mutates-arg" and that an
	// argument the callee mutates is owned by the caller (made here, or itself a mutates-arg parameter)
	ArgOwnership  bool
	localGhost    map[string]bool             // "local-ghost" history variables of the function under verification
	ghostMod      map[string]bool             // ghost state assigned by callees (over-approximated per function)
	fieldW        map[int]bool                // field indices written in the function (loop frames)
	fieldWObj     map[int]map[*types.Var]bool // fid -> variables whose objects are the only ones written at fid (empty: any object)
	inPureEnsures bool
	wholeAssigned map[*types.Var]bool // variables assigned as a whole somewhere in the function
	fieldWAll     bool
	autoPure      map[string]*contract.Func
	fids          map[string]int
	// UncontractedPure lists standard-library calls treated as uninterpreted pure functions.
	UncontractedPure []string
	strlits          map[string]smt.T
	typeIDs          map[string]int
	pathN            int
	cur              *Fn
	curCon           *contract.Func
	entry            *State
	loopOrd          map[ast.Stmt]int
	retOrd           map[*ast.ReturnStmt]int
	fieldIdx         map[string]int
	TraceOn          bool
	// FreshCounter numbers bound variables minted by client spec functions.
	FreshCounter int
	// TypeTermHook lets a client choose the constant standing for a Go type.
	TypeTermHook func(t types.Type) (smt.T, bool)
	// ExtraBound: additional spec-level names per contract key (Layer O binds
	// generator-level names such as typ to type terms).
	ExtraBound map[string]map[string]Val
}

func NewEngine(fset *token.FileSet, cs *contract.Set) *Engine {
	e := &Engine{
		Fset: fset, Contracts: cs, Funcs: map[string]*Fn{}, FuncByObj: map[*types.Func]*Fn{},
		Decls: smt.NewDecls(), Specs: map[string]SpecFunc{}, strlits: map[string]smt.T{},
		typeIDs: map[string]int{}, fieldIdx: map[string]int{},
	}
	registerBuiltinSpecs(e)
	return e
}

// AddFuncs registers every function declared in the given files.
func (e *Engine) AddFuncs(pkg *types.Package, info *types.Info, files []*ast.File) {
	for _, f := range files {
		for _, d := range f.Decls {
			fd, ok := d.(*ast.FuncDecl)
			if !ok {
				continue
			}
			obj, _ := info.Defs[fd.Name].(*types.Func)
			fn := &Fn{Key: contract.KeyOf(pkg.Name(), fd), Decl: fd, Info: info, Pkg: pkg, Obj: obj}
			e.Funcs[fn.Key] = fn
			if obj != nil {
				e.FuncByObj[obj] = fn
			}
		}
	}
}

func (e *Engine) errf(pos token.Pos, format string, a ...interface{}) error {
	p := ""
	if pos.IsValid() && e.Fset != nil {
		p = e.Fset.Position(pos).String() + ": "
	}
	return fmt.Errorf(p+format, a...)
}

func (e *Engine) freshName(hint string) string {
	e.fresh++
	return fmt.Sprintf("%s!%d", smt.Ident(hint), e.fresh)
}

func (e *Engine) Fresh(hint string, s smt.Sort) smt.T {
	return e.Decls.Const(e.freshName(hint), s)
}

// SortOf gives the SMT sort of a Go type.
func SortOf(t types.Type) smt.Sort {
	if t == nil {
		return smt.V
	}
	if b, ok := t.Underlying().(*types.Basic); ok {
		info := b.Info()
		if info&types.IsInteger != 0 {
			return smt.Int
		}
		if info&types.IsBoolean != 0 {
			return smt.Bool
		}
	}
	return smt.V
}

// Box turns a term into a V term (for storage inside containers).
func Box(t smt.T) smt.T {
	switch t.Sort {
	case smt.Int:
		return smt.App(smt.V, "box_int", t)
	case smt.Bool:
		return smt.App(smt.V, "box_bool", t)
	}
	return t
}

// Unbox reads a V term as a value of the given sort.
func Unbox(t smt.T, s smt.Sort) smt.T {
	if t.Sort == s {
		return t
	}
	if t.Sort != smt.V {
		panic("Unbox of non-V term " + t.S)
	}
	switch s {
	case smt.Int:
		return smt.App(smt.Int, "unbox_int", t)
	case smt.Bool:
		return smt.App(smt.Bool, "unbox_bool", t)
	}
	return t
}

var NilV = smt.T{S: "nil_V", Sort: smt.V}

// StrLit returns the constant standing for a string literal; distinct literals
// are distinct values with their lengths known.
func (e *Engine) StrLit(s string) smt.T {
	if t, ok := e.strlits[s]; ok {
		return t
	}
	t := e.Decls.Const(fmt.Sprintf("strlit!%d", len(e.strlits)), smt.V)
	e.Axioms = append(e.Axioms, smt.Eq(smt.App(smt.Int, "str_len", t), smt.IntLit(len(s))))
	for _, k := range sortedStrKeys(e.strlits) {
		e.Axioms = append(e.Axioms, smt.Neq(t, e.strlits[k]))
	}
	e.strlits[s] = t
	return t
}

func sortedStrKeys(m map[string]smt.T) []string {
	ks := make([]string, 0, len(m))
	for k := range m {
		ks = append(ks, k)
	}
	sort.Strings(ks)
	return ks
}

// TypeID gives a stable small integer to a dynamic (concrete) type name.
func (e *Engine) TypeID(name string) smt.T {
	id, ok := e.typeIDs[name]
	if !ok {
		id = len(e.typeIDs) + 1
		e.typeIDs[name] = id
	}
	return smt.IntLit(id)
}

// FieldIndex returns index and type of a field of a struct type.
func FieldIndex(st *types.Struct, name string) (int, types.Type, bool) {
	for i := 0; i < st.NumFields(); i++ {
		if st.Field(i).Name() == name {
			return i, st.Field(i).Type(), true
		}
	}
	return 0, nil, false
}

// ---------------------------------------------------------------- state

type State struct {
	vars  map[types.Object]smt.T
	named map[string]Val // $i, $v, $k, $vis, result names, ghost names
	heap  smt.T
	pc    []smt.T
	facts map[string]bool // assumptions that are facts about pure callees (not branch conditions)
	fresh []smt.T         // pointers allocated by the function under verification
	dead  bool
}

func (s *State) Clone() *State {
	n := &State{vars: make(map[types.Object]smt.T, len(s.vars)), named: make(map[string]Val, len(s.named)), heap: s.heap}
	for k, v := range s.vars {
		n.vars[k] = v
	}
	for k, v := range s.named {
		n.named[k] = v
	}
	n.pc = append([]smt.T(nil), s.pc...)
	n.fresh = append([]smt.T(nil), s.fresh...)
	if s.facts != nil {
		n.facts = make(map[string]bool, len(s.facts))
		for k := range s.facts {
			n.facts[k] = true
		}
	}
	return n
}

func (s *State) Assume(t smt.T) {
	if t.S == "true" {
		return
	}
	s.pc = append(s.pc, t)
}

// AssumeFact records an assumption that does not depend on the path taken (a callee's postcondition).
func (s *State) AssumeFact(t smt.T) {
	if t.S == "true" {
		return
	}
	if s.facts == nil {
		s.facts = map[string]bool{}
	}
	s.facts[t.S] = true
	s.pc = append(s.pc, t)
}

func (s *State) Heap() smt.T              { return s.heap }
func (s *State) SetHeap(h smt.T)          { s.heap = h }
func (s *State) SetNamed(n string, v Val) { s.named[n] = v }
func (s *State) Named(n string) (Val, bool) {
	v, ok := s.named[n]
	return v, ok
}
func (s *State) PC() []smt.T { return s.pc }

// ---------------------------------------------------------------- obligations

func (e *Engine) oblige(st *State, kind, detail string, pos token.Pos, goal smt.T) {
	if goal.S == "true" && kind != "post" {
		// trivially discharged safety / frame obligations are not emitted; a
		// postcondition that the term simplifier already decides (return a against
		// "r == a || r == b") is emitted all the same, so that every contract clause
		// is seen to be exercised
		return
	}
	fn := ""
	if e.cur != nil {
		fn = e.cur.Key
	}
	name := fn + "/" + kind
	if detail != "" {
		name += ":" + detail
	}
	e.pathN++
	o := &Obligation{
		Name: name, ID: fmt.Sprintf("%s#%d", name, e.pathN), Kind: kind, Func: fn,
		Assumes: append([]smt.T(nil), st.pc...), Goal: goal,
	}
	if pos.IsValid() && e.Fset != nil {
		o.Pos = e.Fset.Position(pos)
	}
	if strings.Contains(goal.S, "(exists ") {
		o.Assumes = append(o.Assumes, e.witnessHints(st)...)
	}
	e.Obls = append(e.Obls, o)
}

// witnessHints puts the ground terms s[n] (s a slice variable, n an integer
// variable of the state, or n-1 where its value is n'+1) into the query, under
// an uninterpreted predicate that says nothing: existential goals need a
// witness, and E-matching only finds one among terms that occur in the query.
func (e *Engine) witnessHints(st *State) []smt.T {
	var slices, ints []smt.T
	var vs []*types.Var
	for o := range st.vars {
		if v, ok := o.(*types.Var); ok {
			vs = append(vs, v)
		}
	}
	sortVars(vs)
	seen := map[string]bool{}
	for _, v := range vs {
		t := st.vars[v]
		switch u := v.Type().Underlying().(type) {
		case *types.Slice:
			slices = append(slices, t)
		case *types.Basic:
			if u.Info()&types.IsInteger != 0 && t.Sort == smt.Int && !seen[t.S] {
				seen[t.S] = true
				ints = append(ints, t)
				if strings.HasPrefix(t.S, "(+ ") && strings.HasSuffix(t.S, " 1)") {
					in := strings.TrimSuffix(strings.TrimPrefix(t.S, "(+ "), " 1)")
					if !strings.ContainsAny(in, " ()") && !seen[in] {
						seen[in] = true
						ints = append(ints, smt.T{S: in, Sort: smt.Int})
					}
				}
			}
		}
	}
	// appended-to sequences: the position of the appended element
	var out []smt.T
	seenApp := map[string]bool{}
	for _, v := range vs {
		txt := st.vars[v].S
		for i := 0; i+7 <= len(txt); i++ {
			if !strings.HasPrefix(txt[i:], "(s_app ") {
				continue
			}
			depth, j := 0, i
			for ; j < len(txt); j++ {
				if txt[j] == '(' {
					depth++
				} else if txt[j] == ')' {
					depth--
					if depth == 0 {
						break
					}
				}
			}
			if j >= len(txt) {
				break
			}
			if as := smt.SplitArgs(txt[i : j+1]); len(as) == 2 && !seenApp[as[0]] && len(seenApp) < 6 {
				seenApp[as[0]] = true
				s0 := smt.T{S: as[0], Sort: smt.V}
				e.Decls.Fun("hint!v", []smt.Sort{smt.V}, smt.Bool)
				out = append(out, smt.App(smt.Bool, "hint!v", smt.App(smt.V, "s_at", s0, smt.App(smt.Int, "s_len", s0))))
			}
		}
	}
	if len(slices) == 0 || len(ints) == 0 || len(slices)*len(ints) > 40 {
		return out
	}
	e.Decls.Fun("hint!v", []smt.Sort{smt.V}, smt.Bool)
	for _, s := range slices {
		for _, n := range ints {
			out = append(out, smt.App(smt.Bool, "hint!v", smt.App(smt.V, "s_at", s, n)))
		}
	}
	return out
}

// Queries turns the collected obligations into solver queries. Declarations
// and axioms are taken at the end so that every symbol is declared.
func (e *Engine) Queries() []*smt.Query {
	var qs []*smt.Query
	for _, o := range e.Obls {
		as := append([]smt.T(nil), e.Axioms...)
		as = append(as, o.Assumes...)
		qs = append(qs, &smt.Query{Name: o.ID, Prelude: Prelude, Decls: e.Decls, Assumes: as, Goal: o.Goal, Probe: o.ExpectSat})
	}
	return qs
}

// ---------------------------------------------------------------- helpers on types

func isNilable(t types.Type) bool {
	switch t.Underlying().(type) {
	case *types.Pointer, *types.Slice, *types.Map, *types.Chan, *types.Signature, *types.Interface:
		return true
	}
	if b, ok := t.Underlying().(*types.Basic); ok && (b.Kind() == types.UnsafePointer || b.Kind() == types.UntypedNil) {
		return true
	}
	return false
}

func isString(t types.Type) bool {
	b, ok := t.Underlying().(*types.Basic)
	return ok && b.Info()&types.IsString != 0
}

func isFloat(t types.Type) bool {
	b, ok := t.Underlying().(*types.Basic)
	return ok && b.Info()&(types.IsFloat|types.IsComplex) != 0
}

// typeKey is a printable identity for a Go type used in symbol names.
func typeKey(t types.Type) string {
	return smt.Ident(types.TypeString(t, func(p *types.Package) string { return p.Name() }))
}

// TypeTerm returns the V constant that stands for a Go type in spec functions
// such as goeq(T, x, y). Clients (Layer O) may override via TypeTermHook.
func (e *Engine) TypeTerm(t types.Type) smt.T {
	if e.TypeTermHook != nil {
		if tt, ok := e.TypeTermHook(t); ok {
			e.Decls.Const(tt.S, smt.V)
			return tt
		}
	}
	return e.Decls.Const("ty!"+typeKey(t), smt.V)
}

// ZeroOf gives the zero value of a Go type.
func (e *Engine) ZeroOf(t types.Type) smt.T {
	switch SortOf(t) {
	case smt.Int:
		return smt.IntLit(0)
	case smt.Bool:
		return smt.False
	}
	if isNilable(t) {
		return NilV
	}
	if isString(t) {
		return e.StrLit("")
	}
	return smt.App(smt.V, "zero_of", e.TypeTerm(t))
}

func describe(n ast.Node, fset *token.FileSet) string {
	var b strings.Builder
	printerFprint(&b, fset, n)
	s := b.String()
	s = strings.Join(strings.Fields(s), " ")
	if len(s) > 60 {
		s = s[:60]
	}
	return s
}

// Probe adds a vacuity probe: the current path condition must be satisfiable.
func (e *Engine) Probe(st *State, detail string) {
	fn := ""
	if e.cur != nil {
		fn = e.cur.Key
	}
	e.pathN++
	name := fn + "/vacuity:" + detail
	e.Obls = append(e.Obls, &Obligation{Name: name, ID: fmt.Sprintf("%s#%d", name, e.pathN), Kind: "vacuity", Func: fn,
		Assumes: append([]smt.T(nil), st.pc...), Goal: smt.False, ExpectSat: true})
}

// ObligeSafety records a no-panic obligation on behalf of a client hook.
func (e *Engine) ObligeSafety(st *State, detail string, pos token.Pos, goal smt.T) {
	e.oblige(st, "safety", detail, pos, goal)
}

// CurrentKey is the contract key of the function under verification.
func (e *Engine) CurrentKey() string {
	if e.cur == nil {
		return ""
	}
	return e.cur.Key
}

// FieldIDHook lets a client keep positional field indices for its own struct types.
var FieldIDHook func(owner types.Type, idx int) (int, bool)

// FID gives the identifier of field idx of struct type owner in f_get/f_upd.
// Identifiers are unique per (struct type, field), so that frames stated by
// field identifier are type-aware: a write to pkg.undefined says nothing about
// ast.CallExpr.Fun.
func (e *Engine) FID(owner types.Type, idx int) int {
	if p, ok := owner.Underlying().(*types.Pointer); ok {
		owner = p.Elem()
	}
	if FieldIDHook != nil {
		if id, ok := FieldIDHook(owner, idx); ok {
			return id
		}
	}
	st, ok := owner.Underlying().(*types.Struct)
	if !ok || idx >= st.NumFields() {
		return idx
	}
	key := types.TypeString(owner, nil) + "." + st.Field(idx).Name()
	if e.fids == nil {
		e.fids = map[string]int{}
	}
	id, ok := e.fids[key]
	if !ok {
		id = 1000 + len(e.fids)
		e.fids[key] = id
	}
	return id
}

// LemmaState is an empty state (fresh heap, no variables) for obligations that
// are lemmas over specification functions rather than facts about code.
func (e *Engine) LemmaState(hint string) *State {
	st := &State{vars: map[types.Object]smt.T{}, named: map[string]Val{}}
	st.heap = e.Decls.Const("heap0!lemma!"+smt.Ident(hint), smt.Heap)
	return st
}

// ObligeLemma records a lemma obligation under the given function key.
func (e *Engine) ObligeLemma(st *State, fn, detail string, goal smt.T) {
	if goal.S == "true" {
		return
	}
	e.pathN++
	name := fn + "/lemma:" + detail
	e.Obls = append(e.Obls, &Obligation{Name: name, ID: fmt.Sprintf("%s#%d", name, e.pathN), Kind: "lemma", Func: fn,
		Assumes: append([]smt.T(nil), st.pc...), Goal: goal})
}
