package vc

import (
	"fmt"
	"go/ast"
	"go/token"
	"go/types"
	"sort"
	"strings"

	"gvc/internal/spec"

	"gvc/internal/contract"
	"gvc/internal/smt"
)

type outKind int

const (
	oFall outKind = iota
	oReturn
	oBreak
	oContinue
)

type outcome struct {
	st    *State
	kind  outKind
	label string
}

// loopCtx describes the innermost enclosing loop while its body is executed.
type loopCtx struct {
	label string
}

func (e *Engine) execBlock(st *State, stmts []ast.Stmt) ([]outcome, error) {
	cur := []*State{st}
	var done []outcome
	for _, s := range stmts {
		var next []*State
		for _, c := range cur {
			outs, err := e.execStmt(c, s)
			if err != nil {
				return nil, err
			}
			for _, o := range outs {
				if o.kind == oFall {
					next = append(next, o.st)
				} else {
					done = append(done, o)
				}
			}
		}
		cur = next
		if len(cur) == 0 {
			break
		}
		if len(cur) > 4096 {
			return nil, e.errf(s.Pos(), "path explosion (>4096 live paths)")
		}
	}
	for _, c := range cur {
		done = append(done, outcome{st: c, kind: oFall})
	}
	return done, nil
}

func fall(st *State) []outcome { return []outcome{{st: st, kind: oFall}} }

func (e *Engine) execStmt(st *State, s ast.Stmt) ([]outcome, error) {
	switch s := s.(type) {
	case *ast.BlockStmt:
		return e.execBlock(st, s.List)
	case *ast.EmptyStmt:
		return fall(st), nil
	case *ast.ExprStmt:
		if _, err := e.evalMulti(st, s.X); err != nil {
			return nil, err
		}
		return fall(st), nil
	case *ast.DeclStmt:
		gd, ok := s.Decl.(*ast.GenDecl)
		if !ok || gd.Tok != token.VAR {
			if ok && (gd.Tok == token.CONST || gd.Tok == token.TYPE) {
				return fall(st), nil
			}
			return nil, e.errf(s.Pos(), "unsupported declaration")
		}
		for _, sp := range gd.Specs {
			vs := sp.(*ast.ValueSpec)
			if len(vs.Values) == 0 {
				for _, n := range vs.Names {
					obj := e.info().Defs[n]
					if obj == nil {
						continue
					}
					st.vars[obj] = e.ZeroOf(obj.Type())
				}
				continue
			}
			var lhs []ast.Expr
			for _, n := range vs.Names {
				lhs = append(lhs, n)
			}
			if err := e.assignMulti(st, lhs, vs.Values, true, s.Pos()); err != nil {
				return nil, err
			}
		}
		return fall(st), nil
	case *ast.AssignStmt:
		if s.Tok != token.ASSIGN && s.Tok != token.DEFINE {
			// op-assign: x op= y
			op := map[token.Token]token.Token{token.ADD_ASSIGN: token.ADD, token.SUB_ASSIGN: token.SUB, token.MUL_ASSIGN: token.MUL,
				token.QUO_ASSIGN: token.QUO, token.REM_ASSIGN: token.REM}[s.Tok]
			if op == 0 {
				return nil, e.errf(s.Pos(), "unsupported assignment operator %s", s.Tok)
			}
			be := &ast.BinaryExpr{X: s.Lhs[0], Op: op, Y: s.Rhs[0], OpPos: s.TokPos}
			// type info for the synthetic node
			e.info().Types[be] = types.TypeAndValue{Type: e.typeOf(s.Lhs[0])}
			v, err := e.eval(st, be)
			if err != nil {
				return nil, err
			}
			if err := e.assign(st, s.Lhs[0], v); err != nil {
				return nil, err
			}
			return fall(st), nil
		}
		if err := e.assignMulti(st, s.Lhs, s.Rhs, s.Tok == token.DEFINE, s.Pos()); err != nil {
			return nil, err
		}
		return fall(st), nil
	case *ast.IncDecStmt:
		v, err := e.eval(st, s.X)
		if err != nil {
			return nil, err
		}
		d := smt.IntLit(1)
		nv := smt.Add(v.T, d)
		if s.Tok == token.DEC {
			nv = smt.Sub(v.T, d)
		}
		if err := e.assign(st, s.X, Val{nv, v.Ty}); err != nil {
			return nil, err
		}
		return fall(st), nil
	case *ast.ReturnStmt:
		return e.execReturn(st, s)
	case *ast.IfStmt:
		return e.execIf(st, s)
	case *ast.ForStmt:
		return e.execFor(st, s, "")
	case *ast.RangeStmt:
		return e.execRange(st, s, "")
	case *ast.LabeledStmt:
		switch b := s.Stmt.(type) {
		case *ast.ForStmt:
			return e.execFor(st, b, s.Label.Name)
		case *ast.RangeStmt:
			return e.execRange(st, b, s.Label.Name)
		}
		return e.execStmt(st, s.Stmt)
	case *ast.BranchStmt:
		lbl := ""
		if s.Label != nil {
			lbl = s.Label.Name
		}
		switch s.Tok {
		case token.BREAK:
			return []outcome{{st: st, kind: oBreak, label: lbl}}, nil
		case token.CONTINUE:
			return []outcome{{st: st, kind: oContinue, label: lbl}}, nil
		}
		return nil, e.errf(s.Pos(), "unsupported branch statement %s", s.Tok)
	case *ast.SwitchStmt:
		return e.execSwitch(st, s)
	case *ast.TypeSwitchStmt:
		return e.execTypeSwitch(st, s)
	case *ast.DeferStmt:
		// only `defer f.Close()`-style calls whose effect no contract speaks about
		if fn := e.staticCallee(s.Call); fn != nil {
			if con := e.Contracts.Funcs[e.methodKeyAt(s.Call, fn)]; con != nil && len(con.Attrs["deferrable"]) > 0 {
				// a deferred call whose contract says it has no effect any contract speaks about
				return fall(st), nil
			}
		}
		if DeferHook != nil {
			if ok, err := DeferHook(e, st, s); ok || err != nil {
				return fall(st), err
			}
		}
		return nil, e.errf(s.Pos(), "defer is outside the subset")
	case *ast.GoStmt, *ast.SelectStmt, *ast.SendStmt:
		return nil, e.errf(s.Pos(), "%T is outside the subset (no concurrency semantics)", s)
	}
	return nil, e.errf(s.Pos(), "unsupported statement %T", s)
}

// DeferHook lets a client accept specific defer statements.
var DeferHook func(e *Engine, st *State, s *ast.DeferStmt) (bool, error)

func (e *Engine) assignMulti(st *State, lhs, rhs []ast.Expr, define bool, pos token.Pos) error {
	var vals []Val
	if len(rhs) == 1 && len(lhs) > 1 {
		var vs []Val
		var err error
		switch r := ast.Unparen(rhs[0]).(type) {
		case *ast.IndexExpr:
			vs, err = e.evalIndex(st, r, true)
		case *ast.TypeAssertExpr:
			vs, err = e.evalTypeAssert(st, r, true)
		default:
			vs, err = e.evalMulti(st, rhs[0])
		}
		if err != nil {
			return err
		}
		if len(vs) != len(lhs) {
			return e.errf(pos, "assignment count mismatch: %d = %d", len(lhs), len(vs))
		}
		vals = vs
	} else {
		if len(lhs) != len(rhs) {
			return e.errf(pos, "assignment count mismatch")
		}
		for _, r := range rhs {
			v, err := e.eval(st, r)
			if err != nil {
				return err
			}
			vals = append(vals, v)
		}
	}
	for i, l := range lhs {
		if err := e.assign(st, l, vals[i]); err != nil {
			return err
		}
	}
	return nil
}

func (e *Engine) assign(st *State, lhs ast.Expr, v Val) error {
	switch l := lhs.(type) {
	case *ast.ParenExpr:
		return e.assign(st, l.X, v)
	case *ast.Ident:
		if l.Name == "_" {
			return nil
		}
		obj := e.info().ObjectOf(l)
		vo, ok := obj.(*types.Var)
		if !ok {
			return e.errf(l.Pos(), "assignment to %s", l.Name)
		}
		t := v.T
		// nil assigned to a typed variable, untyped constants: sorts must agree
		if want := SortOf(vo.Type()); t.Sort != want {
			return e.errf(l.Pos(), "sort mismatch assigning to %s", l.Name)
		}
		st.vars[vo] = t
		return nil
	case *ast.IndexExpr:
		base, err := e.eval(st, l.X)
		if err != nil {
			return err
		}
		idx, err := e.eval(st, l.Index)
		if err != nil {
			return err
		}
		what := describe(l, e.Fset)
		e.inPlaceWrite(st, l.X, l.Pos())
		bt := base.Ty.Underlying()
		viaPtr := false
		var ptr Val
		if p, ok := bt.(*types.Pointer); ok {
			e.oblige(st, "safety", "nil-deref("+what+")", l.Pos(), smt.Neq(base.T, NilV))
			ptr = base
			base = Val{smt.App(smt.V, "select", st.heap, base.T), p.Elem()}
			bt = p.Elem().Underlying()
			viaPtr = true
		}
		switch bt.(type) {
		case *types.Slice, *types.Array:
			n, _ := e.lenOf(base)
			e.oblige(st, "safety", "index("+what+")", l.Pos(), smt.And(smt.Le(smt.IntLit(0), idx.T), smt.Lt(idx.T, n)))
			nv := Val{smt.App(smt.V, "s_upd", base.T, idx.T, Box(v.T)), base.Ty}
			if viaPtr {
				st.heap = smt.App(smt.Heap, "store", st.heap, ptr.T, nv.T)
				return nil
			}
			return e.assign(st, l.X, nv)
		case *types.Map:
			e.oblige(st, "safety", "nil-map-write("+what+")", l.Pos(), smt.Neq(base.T, NilV))
			nv := Val{smt.App(smt.V, "m_upd", base.T, Box(idx.T), Box(v.T)), base.Ty}
			return e.assign(st, l.X, nv)
		}
		return e.errf(l.Pos(), "indexed assignment to %s", base.Ty)
	case *ast.SelectorExpr:
		sel := e.info().Selections[l]
		if sel == nil || sel.Kind() != types.FieldVal {
			return e.errf(l.Pos(), "assignment to non-field selector")
		}
		if len(sel.Index()) != 1 {
			return e.errf(l.Pos(), "assignment through an embedded field is outside the subset")
		}
		base, err := e.eval(st, l.X)
		if err != nil {
			return err
		}
		idx := smt.IntLit(e.FID(base.Ty, sel.Index()[0]))
		if _, ok := base.Ty.Underlying().(*types.Pointer); ok {
			e.oblige(st, "safety", "nil-deref("+describe(l, e.Fset)+")", l.Pos(), smt.Neq(base.T, NilV))
			obj := smt.App(smt.V, "select", st.heap, base.T)
			st.heap = smt.App(smt.Heap, "store", st.heap, base.T, smt.App(smt.V, "f_upd", obj, idx, Box(v.T)))
			return e.ghostOnAssign(st, e.FID(base.Ty, sel.Index()[0]), l)
		}
		return e.assign(st, l.X, Val{smt.App(smt.V, "f_upd", base.T, idx, Box(v.T)), base.Ty})
	case *ast.StarExpr:
		p, err := e.eval(st, l.X)
		if err != nil {
			return err
		}
		e.oblige(st, "safety", "nil-deref("+describe(l, e.Fset)+")", l.Pos(), smt.Neq(p.T, NilV))
		st.heap = smt.App(smt.Heap, "store", st.heap, p.T, Box(v.T))
		return nil
	}
	return e.errf(lhs.Pos(), "unsupported assignment target %T", lhs)
}

// noteGhostRules marks the ghost variables that rules of the given kind update
// ("<kind> <target>: name = expr") as modified in the loop being analysed.
func (e *Engine) noteGhostRules(kind string, matches func(target string) bool) {
	if e.curCon == nil {
		return
	}
	for _, a := range e.curCon.Attrs[kind] {
		j := strings.Index(a, ":")
		if j < 0 || !matches(strings.TrimSpace(a[:j])) {
			continue
		}
		if k := strings.Index(a[j:], "="); k > 0 {
			e.ghostMod[strings.TrimSpace(a[j+1:j+k])] = true
		}
	}
}

// ghostOnAssign: "ghost-on-assign <pkg.Type.field>: name = expr" of the contract
// under verification updates a ghost variable whenever that field of any object
// is assigned (a history variable: "some call site has been renamed").
func (e *Engine) ghostOnAssign(st *State, fid int, at ast.Node) error {
	if e.curCon == nil {
		return nil
	}
	for _, a := range e.curCon.Attrs["ghost-on-assign"] {
		j := strings.Index(a, ":")
		if j < 0 {
			return fmt.Errorf("%s: ghost-on-assign of %s needs 'pkg.Type.field: name = expr'", e.curCon.File, e.curCon.Key)
		}
		want, err := e.anyFieldID(strings.TrimSpace(a[:j]))
		if err != nil {
			return fmt.Errorf("%s: ghost-on-assign of %s: %v", e.curCon.File, e.curCon.Key, err)
		}
		if want != fid {
			continue
		}
		if err := e.ghostUpdate(st, strings.TrimSpace(a[j+1:]), at.End(), nil); err != nil {
			return fmt.Errorf("%s: ghost-on-assign of %s: %v", e.curCon.File, e.curCon.Key, err)
		}
	}
	return nil
}

// ghostUpdate executes "name = expr" on a ghost state variable.
func (e *Engine) ghostUpdate(st *State, text string, pos token.Pos, bind map[string]Val) error {
	j := strings.Index(text, "=")
	if j < 0 {
		return fmt.Errorf("needs name = expr")
	}
	name := strings.TrimSpace(text[:j])
	x, err := spec.Parse(strings.TrimSpace(text[j+1:]))
	if err != nil {
		return err
	}
	old, ok := st.named[name]
	if !ok {
		return fmt.Errorf("%s is not a ghost state variable", name)
	}
	env := e.newEnv(st, pos)
	for k, v := range bind {
		env.Bound[k] = v
	}
	v, err := e.evalSpec(env, x)
	if err != nil {
		return err
	}
	st.named[name] = Val{v.T, old.Ty}
	return nil
}

func (e *Engine) execIf(st *State, s *ast.IfStmt) ([]outcome, error) {
	if s.Init != nil {
		outs, err := e.execStmt(st, s.Init)
		if err != nil {
			return nil, err
		}
		if len(outs) != 1 || outs[0].kind != oFall {
			return nil, e.errf(s.Pos(), "branching init statement")
		}
		st = outs[0].st
	}
	c, err := e.eval(st, s.Cond)
	if err != nil {
		return nil, err
	}
	var res []outcome
	if c.T.S != "false" {
		t := st.Clone()
		t.Assume(c.T)
		outs, err := e.execBlock(t, s.Body.List)
		if err != nil {
			return nil, err
		}
		res = append(res, outs...)
	}
	if c.T.S != "true" {
		f := st.Clone()
		f.Assume(smt.Not(c.T))
		if s.Else != nil {
			outs, err := e.execStmt(f, s.Else)
			if err != nil {
				return nil, err
			}
			res = append(res, outs...)
		} else {
			res = append(res, outcome{st: f, kind: oFall})
		}
	}
	return res, nil
}

func (e *Engine) execSwitch(st *State, s *ast.SwitchStmt) ([]outcome, error) {
	if s.Init != nil {
		outs, err := e.execStmt(st, s.Init)
		if err != nil {
			return nil, err
		}
		st = outs[0].st
	}
	var tag *Val
	if s.Tag != nil {
		v, err := e.eval(st, s.Tag)
		if err != nil {
			return nil, err
		}
		tag = &v
	}
	var res []outcome
	rest := st // state in which no earlier case matched
	var def *ast.CaseClause
	for _, c := range s.Body.List {
		cc := c.(*ast.CaseClause)
		if cc.List == nil {
			def = cc
			continue
		}
		var conds []smt.T
		for _, x := range cc.List {
			v, err := e.eval(rest, x)
			if err != nil {
				return nil, err
			}
			if tag != nil {
				eq, err := e.goEqual(rest, *tag, v, x.Pos())
				if err != nil {
					return nil, err
				}
				conds = append(conds, eq)
			} else {
				conds = append(conds, v.T)
			}
		}
		cond := smt.Or(conds...)
		t := rest.Clone()
		t.Assume(cond)
		outs, err := e.execCaseBody(t, cc.Body)
		if err != nil {
			return nil, err
		}
		res = append(res, outs...)
		rest = rest.Clone()
		rest.Assume(smt.Not(cond))
	}
	if def != nil {
		outs, err := e.execCaseBody(rest, def.Body)
		if err != nil {
			return nil, err
		}
		res = append(res, outs...)
	} else {
		res = append(res, outcome{st: rest, kind: oFall})
	}
	return res, nil
}

func (e *Engine) execCaseBody(st *State, body []ast.Stmt) ([]outcome, error) {
	outs, err := e.execBlock(st, body)
	if err != nil {
		return nil, err
	}
	for i := range outs {
		if outs[i].kind == oBreak && outs[i].label == "" {
			outs[i].kind = oFall
		}
	}
	return outs, nil
}

func (e *Engine) execTypeSwitch(st *State, s *ast.TypeSwitchStmt) ([]outcome, error) {
	if s.Init != nil {
		outs, err := e.execStmt(st, s.Init)
		if err != nil {
			return nil, err
		}
		st = outs[0].st
	}
	var x ast.Expr
	switch a := s.Assign.(type) {
	case *ast.AssignStmt:
		x = a.Rhs[0].(*ast.TypeAssertExpr).X
	case *ast.ExprStmt:
		x = a.X.(*ast.TypeAssertExpr).X
	}
	v, err := e.eval(st, x)
	if err != nil {
		return nil, err
	}
	var res []outcome
	rest := st
	var def *ast.CaseClause
	for _, c := range s.Body.List {
		cc := c.(*ast.CaseClause)
		if cc.List == nil {
			def = cc
			continue
		}
		var conds []smt.T
		for _, tx := range cc.List {
			tt := e.typeOf(tx)
			if tt == nil {
				return nil, e.errf(tx.Pos(), "type switch case without type")
			}
			if types.Identical(tt, types.Typ[types.UntypedNil]) {
				conds = append(conds, smt.Eq(v.T, NilV))
				continue
			}
			if _, isIface := tt.Underlying().(*types.Interface); isIface {
				return nil, e.errf(tx.Pos(), "type switch on an interface type is outside the subset")
			}
			conds = append(conds, smt.And(smt.Neq(v.T, NilV), e.dynTypeIs(v.T, tt)))
		}
		cond := smt.Or(conds...)
		t := rest.Clone()
		t.Assume(cond)
		if obj := e.info().Implicits[cc]; obj != nil {
			t.vars[obj] = v.T
		}
		outs, err := e.execCaseBody(t, cc.Body)
		if err != nil {
			return nil, err
		}
		res = append(res, outs...)
		rest = rest.Clone()
		rest.Assume(smt.Not(cond))
	}
	if def != nil {
		if obj := e.info().Implicits[def]; obj != nil {
			rest.vars[obj] = v.T
		}
		outs, err := e.execCaseBody(rest, def.Body)
		if err != nil {
			return nil, err
		}
		res = append(res, outs...)
	} else {
		res = append(res, outcome{st: rest, kind: oFall})
	}
	return res, nil
}

// ---------------------------------------------------------------- loops

// assignedIn collects the local variables assigned in a statement, and whether
// the heap may be written.
func (e *Engine) assignedIn(n ast.Node) (map[*types.Var]bool, bool) {
	if e.ghostMod == nil {
		e.ghostMod = map[string]bool{}
	}
	if e.fieldW == nil {
		e.fieldW = map[int]bool{}
	}
	if e.wholeAssigned == nil {
		e.wholeAssigned = map[*types.Var]bool{}
	}
	vars := map[*types.Var]bool{}
	heap := false
	var root func(x ast.Expr) *types.Var
	root = func(x ast.Expr) *types.Var {
		switch x := x.(type) {
		case *ast.Ident:
			v, _ := e.info().ObjectOf(x).(*types.Var)
			return v
		case *ast.ParenExpr:
			return root(x.X)
		case *ast.IndexExpr:
			if _, ok := e.typeOf(x.X).Underlying().(*types.Pointer); ok {
				heap = true
				e.fieldWAll = true
				return nil
			}
			return root(x.X)
		case *ast.SelectorExpr:
			if t := e.typeOf(x.X); t != nil {
				if _, ok := t.Underlying().(*types.Pointer); ok {
					heap = true
					if sel := e.info().Selections[x]; sel != nil && len(sel.Index()) == 1 {
						fid := e.FID(e.typeOf(x.X), sel.Index()[0])
						e.noteFieldWrite(fid, x.X)
						e.noteGhostRules("ghost-on-assign", func(target string) bool {
							want, err := e.anyFieldID(target)
							return err == nil && want == fid
						})
					} else {
						e.fieldWAll = true
					}
					return nil
				}
			}
			return root(x.X)
		case *ast.StarExpr:
			heap = true
			e.fieldWAll = true
		}
		return nil
	}
	ast.Inspect(n, func(n ast.Node) bool {
		switch s := n.(type) {
		case *ast.AssignStmt:
			for _, l := range s.Lhs {
				if v := root(l); v != nil {
					vars[v] = true
					if _, isIdx := ast.Unparen(l).(*ast.IndexExpr); !isIdx {
						e.wholeAssigned[v] = true
					}
				}
			}
		case *ast.IncDecStmt:
			if v := root(s.X); v != nil {
				vars[v] = true
			}
		case *ast.RangeStmt:
			for _, x := range []ast.Expr{s.Key, s.Value} {
				if x != nil && s.Tok == token.ASSIGN {
					if v := root(x); v != nil {
						vars[v] = true
					}
				}
			}
		case *ast.CallExpr:
			if e.callMayWriteHeap(s) {
				heap = true
				e.noteCallFields(s)
			}
			for _, g := range e.callGhostAssigns(s) {
				e.ghostMod[g] = true
			}
			if fn := e.staticCallee(s); fn != nil {
				key := e.methodKeyAt(s, fn)
				e.noteGhostRules("ghost-after-call", func(target string) bool { return target == key })
			}
		case *ast.FuncLit:
			return false
		}
		return true
	})
	return vars, heap
}

func (e *Engine) loopOrdinal(s ast.Stmt) int { return e.loopOrd[s] }

func (e *Engine) loopInvariants(s ast.Stmt) []contract.Clause {
	if e.curCon == nil {
		return nil
	}
	return e.curCon.LoopInv[e.loopOrdinal(s)]
}

// havoc gives fresh values to the listed variables (and the heap).
func (e *Engine) havoc(st *State, vars map[*types.Var]bool, heap bool) {
	var vs []*types.Var
	for v := range vars {
		if _, ok := st.vars[v]; ok {
			vs = append(vs, v)
		}
	}
	sortVars(vs)
	for _, v := range vs {
		old := st.vars[v]
		st.vars[v] = e.Fresh(v.Name(), SortOf(v.Type()))
		e.typeFacts(st, Val{st.vars[v], v.Type()})
		// a slice that is only written element-wise keeps its length and nil-ness
		if _, isSlice := v.Type().Underlying().(*types.Slice); isSlice && !e.wholeAssigned[v] {
			st.Assume(smt.Eq(smt.App(smt.Int, "s_len", st.vars[v]), smt.App(smt.Int, "s_len", old)))
			st.Assume(smt.Eq(smt.Eq(st.vars[v], NilV), smt.Eq(old, NilV)))
		}
	}
	if heap {
		h0 := st.heap
		st.heap = e.Fresh("heap", smt.Heap)
		if !e.fieldWAll {
			// automatic loop frame: the loop writes (any object's) fields only at
			// the indices collected from its assignments and its callees' assigns
			// clauses; every other field of every object keeps its value
			p := smt.T{S: "p?f", Sort: smt.V}
			j := smt.T{S: "j?f", Sort: smt.Int}
			var ne []smt.T
			for _, idx := range sortedInts(e.fieldW) {
				cond := smt.Neq(j, smt.IntLit(idx))
				// written only through variables the loop does not assign: other objects keep the field
				if bases, ok := e.fieldWObj[idx]; ok && len(bases) > 0 {
					var bs []*types.Var
					allStable := true
					for b := range bases {
						if vars[b] {
							allStable = false
						}
						if _, has := st.vars[b]; !has {
							allStable = false
						}
						bs = append(bs, b)
					}
					if allStable {
						sortVars(bs)
						var notObj []smt.T
						for _, b := range bs {
							notObj = append(notObj, smt.Neq(p, st.vars[b]))
						}
						cond = smt.Or(cond, smt.And(notObj...))
					}
				}
				ne = append(ne, cond)
			}
			o1 := smt.App(smt.V, "f_get", smt.App(smt.V, "select", st.heap, p), j)
			o0 := smt.App(smt.V, "f_get", smt.App(smt.V, "select", h0, p), j)
			st.Assume(smt.Forall([]smt.Bound{{Name: p.S, Sort: smt.V}, {Name: j.S, Sort: smt.Int}}, smt.Implies(smt.And(ne...), smt.Eq(o1, o0)), o1))
		}
	}
	// ghost state assigned by callees in the loop
	var gs []string
	for g := range e.ghostMod {
		gs = append(gs, g)
	}
	sort.Strings(gs)
	for _, g := range gs {
		if gv, ok := st.named[g]; ok {
			st.named[g] = Val{e.Fresh(g, gv.T.Sort), gv.Ty}
		}
	}
	// the effect trace grows in loops that call function values
	if tr, ok := st.named["$trace"]; ok && e.TraceOn {
		st.named["$trace"] = Val{e.Fresh("trace", smt.V), tr.Ty}
	}
}

func sortVars(vs []*types.Var) {
	for i := 1; i < len(vs); i++ {
		for j := i; j > 0 && (vs[j].Pos() < vs[j-1].Pos() || (vs[j].Pos() == vs[j-1].Pos() && vs[j].Name() < vs[j-1].Name())); j-- {
			vs[j], vs[j-1] = vs[j-1], vs[j]
		}
	}
}

// typeFacts assumes what holds of every value of a Go type (nothing yet beyond
// what the prelude states globally).
func (e *Engine) typeFacts(st *State, v Val) {
	if v.Ty == nil {
		return
	}
	if b, ok := v.Ty.Underlying().(*types.Basic); ok && b.Info()&types.IsUnsigned != 0 && v.T.Sort == smt.Int {
		st.Assume(smt.Ge(v.T, smt.IntLit(0)))
	}
	// the elements of a slice of integers / booleans are boxed integers / booleans
	if sl, ok := v.Ty.Underlying().(*types.Slice); ok && v.T.Sort == smt.V {
		var bx, ub string
		switch SortOf(sl.Elem()) {
		case smt.Int:
			bx, ub = "box_int", "unbox_int"
		case smt.Bool:
			bx, ub = "box_bool", "unbox_bool"
		}
		if bx != "" && !strings.Contains(v.T.S, " ") {
			j := smt.T{S: "j?t", Sort: smt.Int}
			at := smt.App(smt.V, "s_at", v.T, j)
			st.Assume(smt.Forall([]smt.Bound{{Name: j.S, Sort: smt.Int}}, smt.Eq(smt.App(smt.V, bx, smt.App(SortOf(sl.Elem()), ub, at)), at), at))
		}
	}
}

// loopScopePos: the position at which a loop's invariants resolve names: just
// inside the body, where the variables declared by the loop header are visible.
func loopScopePos(s ast.Stmt) token.Pos {
	switch l := s.(type) {
	case *ast.ForStmt:
		return l.Body.Lbrace + 1
	case *ast.RangeStmt:
		return l.Body.Lbrace + 1
	}
	return s.Pos()
}

func (e *Engine) checkInvs(st *State, s ast.Stmt, kind string, extra func(env *SpecEnv)) error {
	for i, inv := range e.loopInvariants(s) {
		env := e.newEnv(st, loopScopePos(s))
		if extra != nil {
			extra(env)
		}
		v, err := e.evalSpec(env, inv.Expr)
		if err != nil {
			return fmt.Errorf("%s:%d: %v", inv.File, inv.Line, err)
		}
		name := inv.Name
		if name == "" {
			name = fmt.Sprintf("#%d", i+1)
		}
		e.oblige(st, kind, fmt.Sprintf("loop%d.inv%s", e.loopOrdinal(s), name), s.Pos(), v.T)
	}
	return nil
}

func (e *Engine) assumeInvs(st *State, s ast.Stmt, extra func(env *SpecEnv)) error {
	for _, inv := range e.loopInvariants(s) {
		env := e.newEnv(st, loopScopePos(s))
		if extra != nil {
			extra(env)
		}
		v, err := e.evalSpec(env, inv.Expr)
		if err != nil {
			return fmt.Errorf("%s:%d: %v", inv.File, inv.Line, err)
		}
		st.Assume(v.T)
	}
	return nil
}

func (e *Engine) execFor(st *State, s *ast.ForStmt, label string) ([]outcome, error) {
	if s.Init != nil {
		outs, err := e.execStmt(st, s.Init)
		if err != nil {
			return nil, err
		}
		st = outs[0].st
	}
	e.ghostMod = map[string]bool{}
	e.wholeAssigned = map[*types.Var]bool{}
	mod, heapW := e.assignedIn(s.Body)
	if s.Post != nil {
		m2, h2 := e.assignedIn(s.Post)
		for v := range m2 {
			mod[v] = true
		}
		heapW = heapW || h2
	}
	if s.Cond != nil {
		_, h3 := e.assignedIn(s.Cond)
		heapW = heapW || h3
	}
	// $i names the loop's counter, whatever the code calls it
	var ctr *types.Var
	if as, ok := s.Init.(*ast.AssignStmt); ok && as.Tok == token.DEFINE && len(as.Lhs) == 1 {
		if id, ok := as.Lhs[0].(*ast.Ident); ok {
			ctr, _ = e.info().Defs[id].(*types.Var)
		}
	}
	bindCtr := func(x *State) func(env *SpecEnv) {
		return func(env *SpecEnv) {
			if ctr != nil {
				if t, ok := x.vars[ctr]; ok {
					env.Bound["$i"] = Val{t, ctr.Type()}
				}
			}
		}
	}
	// automatic invariant of a counting loop (i := c; ...; i++ with no other
	// assignment to i): i >= c. It is sound by construction: i starts at c and
	// the only assignment increments it.
	var lower *smt.T
	if ctr != nil {
		if inc, ok := s.Post.(*ast.IncDecStmt); ok && inc.Tok == token.INC {
			if id, ok := inc.X.(*ast.Ident); ok && e.info().ObjectOf(id) == ctr {
				{
					bm := map[*types.Var]bool{}
					ast.Inspect(s.Body, func(n ast.Node) bool {
						switch a := n.(type) {
						case *ast.AssignStmt:
							for _, l := range a.Lhs {
								if id, ok := l.(*ast.Ident); ok && e.info().ObjectOf(id) == ctr {
									bm[ctr] = true
								}
							}
						case *ast.IncDecStmt:
							if id, ok := a.X.(*ast.Ident); ok && e.info().ObjectOf(id) == ctr {
								bm[ctr] = true
							}
						}
						return true
					})
					if t, ok := st.vars[ctr]; ok && t.Sort == smt.Int && !bm[ctr] {
						lo := t
						lower = &lo
					}
				}
			}
		}
	}
	// invariant holds on entry
	if err := e.checkInvs(st, s, "inv-init", bindCtr(st)); err != nil {
		return nil, err
	}
	// arbitrary iteration
	head := st.Clone()
	e.havoc(head, mod, heapW)
	if lower != nil {
		head.Assume(smt.Ge(head.vars[ctr], *lower))
	}
	if err := e.assumeInvs(head, s, bindCtr(head)); err != nil {
		return nil, err
	}
	e.probeLoop(head, s)
	var res []outcome
	// exit path
	exit := head.Clone()
	body := head
	if s.Cond != nil {
		c, err := e.eval(body, s.Cond)
		if err != nil {
			return nil, err
		}
		exit = body.Clone()
		exit.Assume(smt.Not(c.T))
		body.Assume(c.T)
		res = append(res, outcome{st: exit, kind: oFall})
	}
	outs, err := e.execBlock(body, s.Body.List)
	if err != nil {
		return nil, err
	}
	for _, o := range outs {
		switch {
		case o.kind == oReturn:
			res = append(res, o)
		case o.kind == oBreak && (o.label == "" || o.label == label):
			res = append(res, outcome{st: o.st, kind: oFall})
		case o.kind == oFall || (o.kind == oContinue && (o.label == "" || o.label == label)):
			t := o.st
			if s.Post != nil {
				po, err := e.execStmt(t, s.Post)
				if err != nil {
					return nil, err
				}
				t = po[0].st
			}
			if err := e.checkInvs(t, s, "inv-step", bindCtr(t)); err != nil {
				return nil, err
			}
		default:
			res = append(res, o) // labelled break/continue of an outer loop
		}
	}
	return res, nil
}

func (e *Engine) execRange(st *State, s *ast.RangeStmt, label string) ([]outcome, error) {
	coll, err := e.eval(st, s.X)
	if err != nil {
		return nil, err
	}
	e.ghostMod = map[string]bool{}
	e.wholeAssigned = map[*types.Var]bool{}
	mod, heapW := e.assignedIn(s.Body)
	keyObj, valObj := e.rangeVar(s.Key), e.rangeVar(s.Value)
	delete(mod, keyObj)
	delete(mod, valObj)
	switch u := coll.Ty.Underlying().(type) {
	case *types.Slice, *types.Array, *types.Pointer, *types.Basic:
		if p, ok := u.(*types.Pointer); ok {
			coll = Val{smt.App(smt.V, "select", st.heap, coll.T), p.Elem()}
		}
		var n smt.T
		var et types.Type
		if b, ok := u.(*types.Basic); ok && b.Info()&types.IsString != 0 {
			return e.execRangeString(st, s, label, coll, mod, heapW, keyObj, valObj)
		}
		if b, ok := u.(*types.Basic); ok {
			// range over an integer (Go 1.22): i = 0 .. n-1, no iteration for n <= 0
			if b.Info()&types.IsInteger == 0 || coll.T.Sort != smt.Int || s.Value != nil {
				return nil, e.errf(s.Pos(), "range over %s is outside the subset", coll.Ty)
			}
			n = smt.Ite(smt.Lt(coll.T, smt.IntLit(0)), smt.IntLit(0), coll.T)
		} else {
			var err error
			n, err = e.lenOf(coll)
			if err != nil {
				return nil, e.errf(s.Pos(), "%v", err)
			}
			et = elemType(coll.Ty)
		}
		bind := func(i smt.T) func(env *SpecEnv) {
			return func(env *SpecEnv) {
				env.Bound["$i"] = Val{i, types.Typ[types.Int]}
				env.Bound["$n"] = Val{n, types.Typ[types.Int]}
				env.Bound["$coll"] = coll
			}
		}
		if err := e.checkInvs(st, s, "inv-init", bind(smt.IntLit(0))); err != nil {
			return nil, err
		}
		head := st.Clone()
		e.havoc(head, mod, heapW)
		i := e.Fresh("i", smt.Int)
		head.Assume(smt.Le(smt.IntLit(0), i))
		head.Assume(smt.Le(i, n))
		if err := e.assumeInvs(head, s, bind(i)); err != nil {
			return nil, err
		}
		{
			pr := head.Clone()
			pr.Assume(smt.Gt(i, smt.IntLit(0)))
			e.probeLoop(pr, s)
		}
		exit := head.Clone()
		exit.Assume(smt.Eq(i, n))
		res := []outcome{{st: exit, kind: oFall}}
		body := head
		body.Assume(smt.Lt(i, n))
		if keyObj != nil {
			body.vars[keyObj] = i
		}
		if valObj != nil {
			src := coll.T
			// range over a slice variable whose elements the body overwrites:
			// the range clause copies the slice header, not the array, so
			// elements are read from the current contents
			if id, ok := ast.Unparen(s.X).(*ast.Ident); ok {
				if v, ok := e.info().ObjectOf(id).(*types.Var); ok && mod[v] {
					if _, isSlice := v.Type().Underlying().(*types.Slice); isSlice {
						if cur, ok := body.vars[v]; ok {
							src = cur
						}
					}
				}
			}
			body.vars[valObj] = Unbox(smt.App(smt.V, "s_at", src, i), SortOf(et))
		}
		outs, err := e.execBlock(body, s.Body.List)
		if err != nil {
			return nil, err
		}
		for _, o := range outs {
			switch {
			case o.kind == oReturn:
				res = append(res, o)
			case o.kind == oBreak && (o.label == "" || o.label == label):
				res = append(res, outcome{st: o.st, kind: oFall})
			case o.kind == oFall || (o.kind == oContinue && (o.label == "" || o.label == label)):
				if err := e.checkInvs(o.st, s, "inv-step", bind(smt.Add(i, smt.IntLit(1)))); err != nil {
					return nil, err
				}
			default:
				res = append(res, o)
			}
		}
		return res, nil
	case *types.Map:
		// iteration in an arbitrary order: a ghost set of visited keys
		kt, vt := u.Key(), u.Elem()
		visName := "visited!" + fmt.Sprint(e.loopOrdinal(s))
		e.Decls.Fun(visName, []smt.Sort{smt.V, smt.V}, smt.Bool)
		vis0 := e.Fresh("vis", smt.V)
		has := func(vis, k smt.T) smt.T { return smt.App(smt.Bool, visName, vis, k) }
		kb := smt.T{S: "k", Sort: smt.V}
		st.Assume(smt.Forall([]smt.Bound{{Name: "k", Sort: smt.V}}, smt.Not(has(vis0, kb)), has(vis0, kb)))
		bind := func(vis smt.T, cnt smt.T) func(env *SpecEnv) {
			return func(env *SpecEnv) {
				env.Visited = func(k smt.T) smt.T { return has(vis, Box(k)) }
				env.Bound["$count"] = Val{cnt, types.Typ[types.Int]}
				env.Bound["$coll"] = coll
			}
		}
		if err := e.checkInvs(st, s, "inv-init", bind(vis0, smt.IntLit(0))); err != nil {
			return nil, err
		}
		head := st.Clone()
		e.havoc(head, mod, heapW)
		vis := e.Fresh("vis", smt.V)
		cnt := e.Fresh("count", smt.Int)
		card := smt.App(smt.Int, "m_card", coll.T)
		head.Assume(smt.And(smt.Le(smt.IntLit(0), cnt), smt.Le(cnt, card)))
		// visited keys are keys of the map
		head.Assume(smt.Forall([]smt.Bound{{Name: "k", Sort: smt.V}}, smt.Implies(has(vis, kb), smt.App(smt.Bool, "m_has", coll.T, kb)), has(vis, kb)))
		if err := e.assumeInvs(head, s, bind(vis, cnt)); err != nil {
			return nil, err
		}
		{
			pr := head.Clone()
			pr.Assume(smt.Gt(cnt, smt.IntLit(0)))
			e.probeLoop(pr, s)
		}
		exit := head.Clone()
		exit.Assume(smt.Eq(cnt, card))
		exit.Assume(smt.Forall([]smt.Bound{{Name: "k", Sort: smt.V}}, smt.Eq(has(vis, kb), smt.App(smt.Bool, "m_has", coll.T, kb)), smt.App(smt.Bool, "m_has", coll.T, kb)))
		res := []outcome{{st: exit, kind: oFall}}
		body := head
		body.Assume(smt.Lt(cnt, card))
		k := e.Fresh("key", smt.V)
		body.Assume(smt.App(smt.Bool, "m_has", coll.T, k))
		body.Assume(smt.Not(has(vis, k)))
		if keyObj != nil {
			body.vars[keyObj] = Unbox(k, SortOf(kt))
			if SortOf(kt) != smt.V {
				body.Assume(smt.Eq(Box(body.vars[keyObj]), k))
			}
		}
		if valObj != nil {
			body.vars[valObj] = Unbox(smt.App(smt.V, "m_get", coll.T, k), SortOf(vt))
		}
		outs, err := e.execBlock(body, s.Body.List)
		if err != nil {
			return nil, err
		}
		for _, o := range outs {
			switch {
			case o.kind == oReturn:
				res = append(res, o)
			case o.kind == oBreak && (o.label == "" || o.label == label):
				res = append(res, outcome{st: o.st, kind: oFall})
			case o.kind == oFall || (o.kind == oContinue && (o.label == "" || o.label == label)):
				vis2 := e.Fresh("vis", smt.V)
				k2 := smt.T{S: "k", Sort: smt.V}
				o.st.Assume(smt.Forall([]smt.Bound{{Name: "k", Sort: smt.V}}, smt.Eq(has(vis2, k2), smt.Or(smt.Eq(k2, k), has(vis, k2))), has(vis2, k2)))
				if err := e.checkInvs(o.st, s, "inv-step", bind(vis2, smt.Add(cnt, smt.IntLit(1)))); err != nil {
					return nil, err
				}
			default:
				res = append(res, o)
			}
		}
		return res, nil
	}
	return nil, e.errf(s.Pos(), "range over %s is outside the subset", coll.Ty)
}

// execRangeString: range over a string yields (byte offset, rune) pairs.
// Model: rune k starts at offset off(k); off(0)=0, 1 <= off(k+1)-off(k) <= 4,
// off(nrunes)=len(s); nrunes = len([]rune(s)).
func (e *Engine) execRangeString(st *State, s *ast.RangeStmt, label string, coll Val, mod map[*types.Var]bool, heapW bool, keyObj, valObj *types.Var) ([]outcome, error) {
	e.Decls.Fun("rune_off", []smt.Sort{smt.V, smt.Int}, smt.Int)
	e.Decls.Fun("rune_at", []smt.Sort{smt.V, smt.Int}, smt.Int)
	e.Decls.Fun("rune_count", []smt.Sort{smt.V}, smt.Int)
	off := func(k smt.T) smt.T { return smt.App(smt.Int, "rune_off", coll.T, k) }
	nr := smt.App(smt.Int, "rune_count", coll.T)
	slen := smt.App(smt.Int, "str_len", coll.T)
	kq := smt.T{S: "kk", Sort: smt.Int}
	st.Assume(smt.Ge(nr, smt.IntLit(0)))
	st.Assume(smt.Eq(off(smt.IntLit(0)), smt.IntLit(0)))
	st.Assume(smt.Eq(off(nr), slen))
	st.Assume(smt.Forall([]smt.Bound{{Name: "kk", Sort: smt.Int}},
		smt.Implies(smt.And(smt.Le(smt.IntLit(0), kq), smt.Lt(kq, nr)),
			smt.And(smt.Le(smt.Add(off(kq), smt.IntLit(1)), off(smt.Add(kq, smt.IntLit(1)))), smt.Le(off(smt.Add(kq, smt.IntLit(1))), smt.Add(off(kq), smt.IntLit(4))))),
		off(kq)))
	bind := func(i smt.T) func(env *SpecEnv) {
		return func(env *SpecEnv) {
			env.Bound["$i"] = Val{i, types.Typ[types.Int]} // rune ordinal
			env.Bound["$n"] = Val{nr, types.Typ[types.Int]}
			env.Bound["$coll"] = coll
		}
	}
	if err := e.checkInvs(st, s, "inv-init", bind(smt.IntLit(0))); err != nil {
		return nil, err
	}
	head := st.Clone()
	e.havoc(head, mod, heapW)
	i := e.Fresh("ri", smt.Int)
	head.Assume(smt.And(smt.Le(smt.IntLit(0), i), smt.Le(i, nr)))
	if err := e.assumeInvs(head, s, bind(i)); err != nil {
		return nil, err
	}
	exit := head.Clone()
	exit.Assume(smt.Eq(i, nr))
	res := []outcome{{st: exit, kind: oFall}}
	body := head
	body.Assume(smt.Lt(i, nr))
	if keyObj != nil {
		body.vars[keyObj] = off(i)
	}
	if valObj != nil {
		body.vars[valObj] = smt.App(smt.Int, "rune_at", coll.T, i)
	}
	outs, err := e.execBlock(body, s.Body.List)
	if err != nil {
		return nil, err
	}
	for _, o := range outs {
		switch {
		case o.kind == oReturn:
			res = append(res, o)
		case o.kind == oBreak && (o.label == "" || o.label == label):
			res = append(res, outcome{st: o.st, kind: oFall})
		case o.kind == oFall || (o.kind == oContinue && (o.label == "" || o.label == label)):
			if err := e.checkInvs(o.st, s, "inv-step", bind(smt.Add(i, smt.IntLit(1)))); err != nil {
				return nil, err
			}
		default:
			res = append(res, o)
		}
	}
	return res, nil
}

func (e *Engine) rangeVar(x ast.Expr) *types.Var {
	id, ok := x.(*ast.Ident)
	if !ok || id.Name == "_" {
		return nil
	}
	v, _ := e.info().ObjectOf(id).(*types.Var)
	return v
}

func elemType(t types.Type) types.Type {
	switch u := t.Underlying().(type) {
	case *types.Slice:
		return u.Elem()
	case *types.Array:
		return u.Elem()
	case *types.Pointer:
		return elemType(u.Elem())
	case *types.Map:
		return u.Elem()
	}
	return nil
}

// probeLoop: the loop head (after some iterations) must be reachable under the
// invariants, otherwise the step obligations are vacuous.
func (e *Engine) probeLoop(st *State, s ast.Stmt) {
	e.Probe(st, fmt.Sprintf("loop%d.head", e.loopOrdinal(s)))
}

// noteFieldWrite records a write to field fid through base expression x.
func (e *Engine) noteFieldWrite(fid int, x ast.Expr) {
	e.fieldW[fid] = true
	if e.fieldWObj == nil {
		e.fieldWObj = map[int]map[*types.Var]bool{}
	}
	id, ok := ast.Unparen(x).(*ast.Ident)
	var v *types.Var
	if ok {
		v, _ = e.info().ObjectOf(id).(*types.Var)
	}
	if v == nil {
		e.fieldWObj[fid] = map[*types.Var]bool{} // any object
		return
	}
	if m, seen := e.fieldWObj[fid]; seen && len(m) == 0 {
		return // already "any"
	}
	if e.fieldWObj[fid] == nil {
		e.fieldWObj[fid] = map[*types.Var]bool{}
	}
	e.fieldWObj[fid][v] = true
}

// paramOf: x is (an identifier of) a parameter of the function under verification whose type is a map or a slice.
func (e *Engine) paramOf(x ast.Expr) *types.Var {
	id, ok := ast.Unparen(x).(*ast.Ident)
	if !ok || e.cur == nil || e.cur.Obj == nil {
		return nil
	}
	v, ok := e.info().ObjectOf(id).(*types.Var)
	if !ok {
		return nil
	}
	sig := e.cur.Obj.Type().(*types.Signature)
	for i := 0; i < sig.Params().Len(); i++ {
		if sig.Params().At(i) == v {
			switch v.Type().Underlying().(type) {
			case *types.Map, *types.Slice:
				return v
			}
		}
	}
	return nil
}

func (e *Engine) declaredMutable(name string) bool {
	if e.curCon == nil {
		return false
	}
	for _, mp := range e.curCon.Attrs["mutates-arg"] {
		if strings.TrimSpace(mp) == name {
			return true
		}
	}
	return false
}

// inPlaceWrite: an element write (m[k] = v, s[i] = v, delete(m, k)) whose base is a parameter is an
// effect on the caller's value; the value model of maps and slices does not show it, so the
// contract must declare it ("mutates-arg: p").
func (e *Engine) inPlaceWrite(st *State, base ast.Expr, pos token.Pos) {
	if !e.ArgOwnership {
		return
	}
	if v := e.paramOf(base); v != nil && !e.declaredMutable(v.Name()) {
		e.oblige(st, "safety", "in-place-write-to-argument("+v.Name()+")", pos, smt.False)
	}
}

// ownedArgument: the argument handed to a parameter the callee mutates in place is a value this
// function owns: a parameter it may itself mutate, or a local variable that is never assigned
// from a field, an element or another variable (only from make, literals, nil and call results).
func (e *Engine) ownedArgument(x ast.Expr) bool {
	id, ok := ast.Unparen(x).(*ast.Ident)
	if !ok {
		return false
	}
	v, ok := e.info().ObjectOf(id).(*types.Var)
	if !ok || v.IsField() || v.Parent() == nil || (v.Pkg() != nil && v.Parent() == v.Pkg().Scope()) {
		return false
	}
	if p := e.paramOf(x); p != nil {
		return e.declaredMutable(p.Name())
	}
	sig := e.cur.Obj.Type().(*types.Signature)
	for i := 0; i < sig.Params().Len(); i++ {
		if sig.Params().At(i) == v {
			return false
		}
	}
	if r := sig.Recv(); r == v {
		return false
	}
	owned := true
	fresh := func(rhs ast.Expr) bool {
		switch r := ast.Unparen(rhs).(type) {
		case *ast.CallExpr, *ast.CompositeLit:
			return true
		case *ast.Ident:
			return r.Name == "nil"
		}
		return false
	}
	ast.Inspect(e.cur.Decl.Body, func(n ast.Node) bool {
		switch s := n.(type) {
		case *ast.AssignStmt:
			for i, l := range s.Lhs {
				lid, ok := l.(*ast.Ident)
				if !ok || e.info().ObjectOf(lid) != v {
					continue
				}
				if len(s.Rhs) == len(s.Lhs) {
					if !fresh(s.Rhs[i]) {
						owned = false
					}
				} else if _, isCall := ast.Unparen(s.Rhs[0]).(*ast.CallExpr); !isCall {
					owned = false
				}
			}
		case *ast.ValueSpec:
			for i, nm := range s.Names {
				if e.info().ObjectOf(nm) == v && i < len(s.Values) && !fresh(s.Values[i]) {
					owned = false
				}
			}
		case *ast.RangeStmt:
			for _, l := range []ast.Expr{s.Key, s.Value} {
				if lid, ok := l.(*ast.Ident); ok && e.info().ObjectOf(lid) == v {
					owned = false
				}
			}
		}
		return true
	})
	return owned
}
