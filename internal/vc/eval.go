package vc

import (
	"fmt"
	"go/ast"
	"go/constant"
	"go/printer"
	"go/token"
	"go/types"
	"io"
	"math/big"
	"strconv"

	"gvc/internal/smt"
)

func printerFprint(w io.Writer, fset *token.FileSet, n ast.Node) {
	if fset == nil {
		fset = token.NewFileSet()
	}
	printer.Fprint(w, fset, n)
}

func (e *Engine) info() *types.Info { return e.cur.Info }

func (e *Engine) typeOf(x ast.Expr) types.Type {
	if tv, ok := e.info().Types[x]; ok && tv.Type != nil {
		return tv.Type
	}
	if id, ok := x.(*ast.Ident); ok {
		if o := e.info().ObjectOf(id); o != nil {
			return o.Type()
		}
	}
	return nil
}

// EvalExpr evaluates a Go expression of the function under verification (for client hooks).
func (e *Engine) EvalExpr(st *State, x ast.Expr) (Val, error) { return e.eval(st, x) }

// eval evaluates an expression that yields exactly one value.
func (e *Engine) eval(st *State, x ast.Expr) (Val, error) {
	vs, err := e.evalMulti(st, x)
	if err != nil {
		return Val{}, err
	}
	if len(vs) != 1 {
		return Val{}, e.errf(x.Pos(), "expression yields %d values, want 1", len(vs))
	}
	return vs[0], nil
}

func (e *Engine) constVal(tv types.TypeAndValue) (Val, bool) {
	if tv.Value == nil {
		return Val{}, false
	}
	switch tv.Value.Kind() {
	case constant.Bool:
		if constant.BoolVal(tv.Value) {
			return Val{smt.True, tv.Type}, true
		}
		return Val{smt.False, tv.Type}, true
	case constant.Int:
		if SortOf(tv.Type) == smt.Int {
			if n, ok := constant.Int64Val(tv.Value); ok {
				if n >= 0 {
					return Val{smt.T{S: strconv.FormatInt(n, 10), Sort: smt.Int}, tv.Type}, true
				}
				return Val{smt.T{S: "(- " + strconv.FormatInt(-n, 10) + ")", Sort: smt.Int}, tv.Type}, true
			}
			if n, ok := constant.Uint64Val(tv.Value); ok {
				return Val{smt.T{S: strconv.FormatUint(n, 10), Sort: smt.Int}, tv.Type}, true
			}
		}
		// integer constant of float type
		return Val{e.Decls.Const("fltlit!"+smt.Ident(tv.Value.ExactString()), smt.V), tv.Type}, true
	case constant.String:
		return Val{e.StrLit(constant.StringVal(tv.Value)), tv.Type}, true
	case constant.Float, constant.Complex:
		if constant.Sign(constant.Real(tv.Value)) == 0 && constant.Sign(constant.Imag(tv.Value)) == 0 {
			return Val{e.Decls.Const("fltlit!0", smt.V), tv.Type}, true
		}
		return Val{e.Decls.Const("fltlit!"+smt.Ident(tv.Value.ExactString()), smt.V), tv.Type}, true
	}
	return Val{}, false
}

// lenOfArray: len(a) of an array is a constant for go/types, but array lengths
// are symbolic at Layer O.
func (e *Engine) lenOfArray(x ast.Expr) bool {
	call, ok := ast.Unparen(x).(*ast.CallExpr)
	if !ok || len(call.Args) != 1 {
		return false
	}
	id, ok := ast.Unparen(call.Fun).(*ast.Ident)
	if !ok || (id.Name != "len" && id.Name != "cap") {
		return false
	}
	if _, isB := e.info().ObjectOf(id).(*types.Builtin); !isB {
		return false
	}
	t := e.typeOf(call.Args[0])
	if t == nil {
		return false
	}
	if p, ok := t.Underlying().(*types.Pointer); ok {
		t = p.Elem()
	}
	_, isArr := t.Underlying().(*types.Array)
	return isArr && ArrayLenHook != nil
}

func (e *Engine) evalMulti(st *State, x ast.Expr) ([]Val, error) {
	if tv, ok := e.info().Types[x]; ok && tv.Value != nil && !e.lenOfArray(x) {
		if v, ok := e.constVal(tv); ok {
			return []Val{v}, nil
		}
	}
	switch x := x.(type) {
	case *ast.ParenExpr:
		return e.evalMulti(st, x.X)
	case *ast.Ident:
		v, err := e.evalIdent(st, x)
		return []Val{v}, err
	case *ast.BasicLit:
		return nil, e.errf(x.Pos(), "literal without constant value: %s", x.Value)
	case *ast.BinaryExpr:
		v, err := e.evalBinary(st, x)
		return []Val{v}, err
	case *ast.UnaryExpr:
		v, err := e.evalUnary(st, x)
		return []Val{v}, err
	case *ast.StarExpr:
		p, err := e.eval(st, x.X)
		if err != nil {
			return nil, err
		}
		e.oblige(st, "safety", "nil-deref("+describe(x.X, e.Fset)+")", x.Pos(), smt.Neq(p.T, NilV))
		ty := e.typeOf(x)
		return []Val{{Unbox(smt.App(smt.V, "select", st.heap, p.T), SortOf(ty)), ty}}, nil
	case *ast.SelectorExpr:
		v, err := e.evalSelector(st, x)
		return []Val{v}, err
	case *ast.IndexExpr:
		return e.evalIndex(st, x, false)
	case *ast.SliceExpr:
		v, err := e.evalSliceExpr(st, x)
		return []Val{v}, err
	case *ast.CallExpr:
		return e.evalCall(st, x)
	case *ast.CompositeLit:
		v, err := e.evalComposite(st, x)
		return []Val{v}, err
	case *ast.TypeAssertExpr:
		return e.evalTypeAssert(st, x, false)
	case *ast.FuncLit:
		v, err := e.evalFuncLit(st, x)
		return []Val{v}, err
	}
	return nil, e.errf(x.Pos(), "unsupported expression %T", x)
}

func (e *Engine) evalIdent(st *State, id *ast.Ident) (Val, error) {
	obj := e.info().ObjectOf(id)
	if obj == nil {
		return Val{}, e.errf(id.Pos(), "unresolved identifier %s", id.Name)
	}
	switch o := obj.(type) {
	case *types.Nil:
		return Val{NilV, types.Typ[types.UntypedNil]}, nil
	case *types.Var:
		if t, ok := st.vars[o]; ok {
			return Val{t, o.Type()}, nil
		}
		// package-level variable: an unconstrained (but fixed) global
		if o.Parent() == o.Pkg().Scope() {
			return Val{e.Decls.Const("glob!"+smt.Ident(o.Pkg().Name()+"."+o.Name()), SortOf(o.Type())), o.Type()}, nil
		}
		return Val{}, e.errf(id.Pos(), "variable %s has no value in this state", id.Name)
	case *types.Const:
		if v, ok := e.constVal(types.TypeAndValue{Type: o.Type(), Value: o.Val()}); ok {
			return v, nil
		}
	case *types.Func:
		return Val{e.Decls.Const("func!"+smt.Ident(o.FullName()), smt.V), o.Type()}, nil
	}
	return Val{}, e.errf(id.Pos(), "unsupported identifier %s (%T)", id.Name, obj)
}

func (e *Engine) evalBinary(st *State, x *ast.BinaryExpr) (Val, error) {
	ty := e.typeOf(x)
	switch x.Op {
	case token.LAND, token.LOR:
		a, err := e.eval(st, x.X)
		if err != nil {
			return Val{}, err
		}
		sub := st.Clone()
		if x.Op == token.LAND {
			sub.Assume(a.T)
		} else {
			sub.Assume(smt.Not(a.T))
		}
		b, err := e.eval(sub, x.Y)
		if err != nil {
			return Val{}, err
		}
		if sub.heap.S != st.heap.S {
			return Val{}, e.errf(x.Pos(), "side effect in the right operand of %s is outside the subset", x.Op)
		}
		// facts assumed while evaluating the right operand (callee ensures) are
		// kept, guarded by the left operand
		for _, f := range sub.pc[len(st.pc)+1:] {
			if x.Op == token.LAND {
				st.Assume(smt.Implies(a.T, f))
			} else {
				st.Assume(smt.Implies(smt.Not(a.T), f))
			}
		}
		if x.Op == token.LAND {
			return Val{smt.And(a.T, b.T), ty}, nil
		}
		return Val{smt.Or(a.T, b.T), ty}, nil
	}
	a, err := e.eval(st, x.X)
	if err != nil {
		return Val{}, err
	}
	b, err := e.eval(st, x.Y)
	if err != nil {
		return Val{}, err
	}
	switch x.Op {
	case token.EQL, token.NEQ:
		// x == x / x != x on a floating-point (or complex) operand is the NaN test: the
		// properties assume NaN-free VALUES where they compare values, not that code may
		// treat the test as constant; it is an uninterpreted predicate of x
		if a.T.S == b.T.S && a.T.Sort == smt.V && a.Ty != nil {
			if bt, ok := a.Ty.Underlying().(*types.Basic); ok && bt.Info()&(types.IsFloat|types.IsComplex) != 0 {
				e.Decls.Fun("flt_isnan", []smt.Sort{smt.V}, smt.Bool)
				nan := smt.App(smt.Bool, "flt_isnan", a.T)
				if x.Op == token.EQL {
					nan = smt.Not(nan)
				}
				return Val{nan, ty}, nil
			}
		}
		eq, err := e.goEqual(st, a, b, x.Pos())
		if err != nil {
			return Val{}, err
		}
		if x.Op == token.NEQ {
			eq = smt.Not(eq)
		}
		return Val{eq, ty}, nil
	case token.LSS, token.LEQ, token.GTR, token.GEQ:
		if a.T.Sort == smt.Int && b.T.Sort == smt.Int {
			op := map[token.Token]string{token.LSS: "<", token.LEQ: "<=", token.GTR: ">", token.GEQ: ">="}[x.Op]
			return Val{smt.App(smt.Bool, op, a.T, b.T), ty}, nil
		}
		lt := "flt_lt"
		if isString(a.Ty) {
			lt = "str_lt"
		}
		var t smt.T
		switch x.Op {
		case token.LSS:
			t = smt.App(smt.Bool, lt, a.T, b.T)
		case token.GTR:
			t = smt.App(smt.Bool, lt, b.T, a.T)
		case token.LEQ:
			t = smt.Not(smt.App(smt.Bool, lt, b.T, a.T))
		case token.GEQ:
			t = smt.Not(smt.App(smt.Bool, lt, a.T, b.T))
		}
		return Val{t, ty}, nil
	case token.ADD:
		if a.T.Sort == smt.Int {
			return Val{smt.Add(a.T, b.T), ty}, nil
		}
		if isString(a.Ty) {
			return Val{smt.App(smt.V, "str_cat", a.T, b.T), ty}, nil
		}
		if isFloat(a.Ty) && a.T.Sort == smt.V && b.T.Sort == smt.V {
			// IEEE 754 addition (trusted): x + 0 is a canonical representative of x's
			// numeric value: (+0) + 0 and (-0) + 0 are both +0, every other non-NaN
			// value is unchanged
			if !e.Decls.HasFun("flt_add") {
				e.Decls.Fun("flt_add", []smt.Sort{smt.V, smt.V}, smt.V)
				z := e.Decls.Const("fltlit!0", smt.V)
				x, y := smt.T{S: "x", Sort: smt.V}, smt.T{S: "y", Sort: smt.V}
				ax := smt.App(smt.V, "flt_add", x, z)
				ay := smt.App(smt.V, "flt_add", y, z)
				e.Axioms = append(e.Axioms, smt.Forall([]smt.Bound{{Name: "x", Sort: smt.V}, {Name: "y", Sort: smt.V}},
					smt.Implies(smt.App(smt.Bool, "flt_eq", x, y), smt.Eq(ax, ay)), ax, ay))
				e.Axioms = append(e.Axioms, smt.Forall([]smt.Bound{{Name: "x", Sort: smt.V}}, smt.App(smt.Bool, "flt_eq", ax, x), ax))
			}
			return Val{smt.App(smt.V, "flt_add", a.T, b.T), ty}, nil
		}
	case token.SUB:
		if a.T.Sort == smt.Int {
			// integers are mathematical in the VCs (A-int). A difference of two signed
			// non-constant operands is where that matters most (compare-by-subtraction):
			// the result must fit the operand type, given that the operands do
			if bt, ok := ty.Underlying().(*types.Basic); ok && bt.Info()&types.IsInteger != 0 && bt.Info()&types.IsUnsigned == 0 && bt.Info()&types.IsUntyped == 0 {
				ta, tb := e.info().Types[x.X], e.info().Types[x.Y]
				if ta.Value == nil && tb.Value == nil {
					bits := map[types.BasicKind]uint{types.Int8: 8, types.Int16: 16, types.Int32: 32, types.Int64: 64, types.Int: 64}[bt.Kind()]
					if bits > 0 {
						lo := smt.T{S: "(- " + new(big.Int).Lsh(big.NewInt(1), bits-1).String() + ")", Sort: smt.Int}
						hi := smt.T{S: new(big.Int).Sub(new(big.Int).Lsh(big.NewInt(1), bits-1), big.NewInt(1)).String(), Sort: smt.Int}
						inRange := func(t smt.T) smt.T { return smt.And(smt.Le(lo, t), smt.Le(t, hi)) }
						d := smt.Sub(a.T, b.T)
						e.oblige(st, "safety", "no-overflow("+describe(x, e.Fset)+")", x.Pos(), smt.Implies(smt.And(inRange(a.T), inRange(b.T)), inRange(d)))
					}
				}
			}
			return Val{smt.Sub(a.T, b.T), ty}, nil
		}
	case token.MUL:
		if a.T.Sort == smt.Int {
			return Val{smt.Mul(a.T, b.T), ty}, nil
		}
	case token.QUO, token.REM:
		if a.T.Sort == smt.Int {
			e.oblige(st, "safety", "div-by-zero", x.Pos(), smt.Neq(b.T, smt.IntLit(0)))
			op := "div"
			if x.Op == token.REM {
				op = "mod"
			}
			return Val{smt.App(smt.Int, op, a.T, b.T), ty}, nil
		}
	}
	// anything else (bit operations, float arithmetic): an uninterpreted total function
	f := "binop!" + smt.Ident(x.Op.String()) + "!" + string(a.T.Sort) + string(b.T.Sort)
	f = smt.Ident(f)
	e.Decls.Fun(f, []smt.Sort{a.T.Sort, b.T.Sort}, SortOf(ty))
	return Val{smt.App(SortOf(ty), f, a.T, b.T), ty}, nil
}

// goEqual is Go's == on two values of the same static type.
func (e *Engine) goEqual(st *State, a, b Val, pos token.Pos) (smt.T, error) {
	if a.T.Sort != b.T.Sort {
		return smt.T{}, e.errf(pos, "== on different sorts")
	}
	if a.T.Sort != smt.V {
		return smt.Eq(a.T, b.T), nil
	}
	ty := a.Ty
	if ty == nil || (types.Identical(ty, types.Typ[types.UntypedNil])) {
		ty = b.Ty
	}
	if ty == nil {
		return smt.Eq(a.T, b.T), nil
	}
	switch u := ty.Underlying().(type) {
	case *types.Basic:
		if u.Info()&(types.IsFloat|types.IsComplex) != 0 {
			return smt.App(smt.Bool, "flt_eq", a.T, b.T), nil
		}
		return smt.Eq(a.T, b.T), nil // strings (extensional values), unsafe.Pointer, nil
	case *types.Pointer, *types.Slice, *types.Map, *types.Chan, *types.Signature:
		return smt.Eq(a.T, b.T), nil // identity / comparison with nil
	case *types.Interface:
		return smt.Eq(a.T, b.T), nil
	}
	// structs, arrays, opaque named types: Go's == at that type
	return smt.App(smt.Bool, "goeq", e.TypeTerm(ty), a.T, b.T), nil
}

func (e *Engine) evalUnary(st *State, x *ast.UnaryExpr) (Val, error) {
	ty := e.typeOf(x)
	switch x.Op {
	case token.AND:
		return e.evalAddrOf(st, x)
	}
	a, err := e.eval(st, x.X)
	if err != nil {
		return Val{}, err
	}
	switch x.Op {
	case token.NOT:
		return Val{smt.Not(a.T), ty}, nil
	case token.SUB:
		if a.T.Sort == smt.Int {
			return Val{smt.Neg(a.T), ty}, nil
		}
	case token.ADD:
		return a, nil
	}
	f := smt.Ident("unop!" + x.Op.String() + "!" + string(a.T.Sort))
	e.Decls.Fun(f, []smt.Sort{a.T.Sort}, SortOf(ty))
	return Val{smt.App(SortOf(ty), f, a.T), ty}, nil
}

// evalAddrOf handles &x. &CompositeLit allocates; &local and &x.f produce an
// abstract address whose pointee is the current value (reads through it are
// sound as long as the pointee is not written afterwards; writes through such a
// pointer are rejected by assign).
func (e *Engine) evalAddrOf(st *State, x *ast.UnaryExpr) (Val, error) {
	ty := e.typeOf(x)
	v, err := e.eval(st, x.X)
	if err != nil {
		return Val{}, err
	}
	// &*p is p
	if st2, ok := ast.Unparen(x.X).(*ast.StarExpr); ok {
		pv, err := e.eval(st, st2.X)
		if err != nil {
			return Val{}, err
		}
		e.oblige(st, "safety", "nil-deref("+describe(x.X, e.Fset)+")", x.Pos(), smt.Neq(pv.T, NilV))
		return Val{pv.T, ty}, nil
	}
	// &v of a local variable: one address per variable, different from every
	// other pointer of the state (nobody else can hold it before it is taken)
	if id, ok := ast.Unparen(x.X).(*ast.Ident); ok {
		if obj, ok := e.info().ObjectOf(id).(*types.Var); ok && !obj.IsField() && obj.Parent() != nil && obj.Pkg() != nil && obj.Parent() != obj.Pkg().Scope() {
			key := "&" + id.Name + "@" + fmt.Sprint(int(obj.Pos()))
			if a, ok := st.named[key]; ok {
				st.Assume(smt.Eq(smt.App(smt.V, "select", st.heap, a.T), Box(v.T)))
				return Val{a.T, ty}, nil
			}
			p := e.Fresh("addr", smt.V)
			st.Assume(smt.Neq(p, NilV))
			e.noteFresh(st, p)
			st.named[key] = Val{p, ty}
			st.Assume(smt.Eq(smt.App(smt.V, "select", st.heap, p), Box(v.T)))
			return Val{p, ty}, nil
		}
	}
	p := e.Fresh("addr", smt.V)
	st.Assume(smt.Neq(p, NilV))
	if _, ok := ast.Unparen(x.X).(*ast.CompositeLit); ok {
		e.noteFresh(st, p)
		// fresh allocation: different from every pointer the old heap knows
		st.heap = smt.App(smt.Heap, "store", st.heap, p, Box(v.T))
		return Val{p, ty}, nil
	}
	st.Assume(smt.Eq(smt.App(smt.V, "select", st.heap, p), Box(v.T)))
	return Val{p, ty}, nil
}

func (e *Engine) evalSelector(st *State, x *ast.SelectorExpr) (Val, error) {
	// package-qualified identifier
	if id, ok := x.X.(*ast.Ident); ok {
		if _, isPkg := e.info().ObjectOf(id).(*types.PkgName); isPkg {
			obj := e.info().ObjectOf(x.Sel)
			switch o := obj.(type) {
			case *types.Const:
				if v, ok := e.constVal(types.TypeAndValue{Type: o.Type(), Value: o.Val()}); ok {
					return v, nil
				}
			case *types.Var:
				return Val{e.Decls.Const("glob!"+smt.Ident(o.Pkg().Name()+"."+o.Name()), SortOf(o.Type())), o.Type()}, nil
			case *types.Func:
				return Val{e.Decls.Const("func!"+smt.Ident(o.FullName()), smt.V), o.Type()}, nil
			}
			return Val{}, e.errf(x.Pos(), "unsupported qualified identifier %s.%s", id.Name, x.Sel.Name)
		}
	}
	sel := e.info().Selections[x]
	if sel == nil {
		return Val{}, e.errf(x.Pos(), "selector without selection info")
	}
	if sel.Kind() != types.FieldVal {
		return Val{}, e.errf(x.Pos(), "method value %s is outside the subset", x.Sel.Name)
	}
	base, err := e.eval(st, x.X)
	if err != nil {
		return Val{}, err
	}
	return e.fieldPath(st, base, sel.Index(), x.Pos(), describe(x, e.Fset))
}

// fieldPath reads base.f1.f2... following the index path (embedded fields).
func (e *Engine) fieldPath(st *State, base Val, path []int, pos token.Pos, what string) (Val, error) {
	cur := base
	for _, idx := range path {
		t := cur.Ty
		obj := cur.T
		if p, ok := t.Underlying().(*types.Pointer); ok {
			e.oblige(st, "safety", "nil-deref("+what+")", pos, smt.Neq(cur.T, NilV))
			obj = smt.App(smt.V, "select", st.heap, cur.T)
			t = p.Elem()
		}
		s, ok := t.Underlying().(*types.Struct)
		if !ok {
			return Val{}, e.errf(pos, "field access on non-struct %s", t)
		}
		ft := s.Field(idx).Type()
		cur = Val{Unbox(smt.App(smt.V, "f_get", obj, smt.IntLit(e.FID(t, idx))), SortOf(ft)), ft}
	}
	return cur, nil
}

func (e *Engine) lenOf(v Val) (smt.T, error) {
	switch u := v.Ty.Underlying().(type) {
	case *types.Slice:
		return smt.App(smt.Int, "s_len", v.T), nil
	case *types.Map:
		return smt.App(smt.Int, "m_card", v.T), nil
	case *types.Array:
		return e.arrayLen(u), nil
	case *types.Basic:
		if u.Info()&types.IsString != 0 {
			return smt.App(smt.Int, "str_len", v.T), nil
		}
	case *types.Pointer:
		if a, ok := u.Elem().Underlying().(*types.Array); ok {
			return e.arrayLen(a), nil
		}
	case *types.Chan:
		f := "chan_len"
		e.Decls.Fun(f, []smt.Sort{smt.V}, smt.Int)
		return smt.App(smt.Int, f, v.T), nil
	}
	return smt.T{}, fmt.Errorf("len of %s", v.Ty)
}

// ArrayLenHook lets Layer O give arrays a symbolic length.
var ArrayLenHook func(e *Engine, a *types.Array) (smt.T, bool)

func (e *Engine) arrayLen(a *types.Array) smt.T {
	if ArrayLenHook != nil {
		if t, ok := ArrayLenHook(e, a); ok {
			return t
		}
	}
	return smt.IntLit(int(a.Len()))
}

func (e *Engine) evalIndex(st *State, x *ast.IndexExpr, commaOk bool) ([]Val, error) {
	// generic instantiation f[T] is not in the subset
	base, err := e.eval(st, x.X)
	if err != nil {
		return nil, err
	}
	idx, err := e.eval(st, x.Index)
	if err != nil {
		return nil, err
	}
	ty := e.typeOf(x)
	if tup, ok := ty.(*types.Tuple); ok && tup.Len() == 2 {
		ty = tup.At(0).Type()
		commaOk = true
	}
	what := describe(x, e.Fset)
	bt := base.Ty.Underlying()
	if p, ok := bt.(*types.Pointer); ok { // pointer to array
		e.oblige(st, "safety", "nil-deref("+what+")", x.Pos(), smt.Neq(base.T, NilV))
		base = Val{smt.App(smt.V, "select", st.heap, base.T), p.Elem()}
		bt = p.Elem().Underlying()
	}
	switch u := bt.(type) {
	case *types.Slice, *types.Array:
		n, _ := e.lenOf(base)
		e.oblige(st, "safety", "index("+what+")", x.Pos(), smt.And(smt.Le(smt.IntLit(0), idx.T), smt.Lt(idx.T, n)))
		return []Val{{Unbox(smt.App(smt.V, "s_at", base.T, idx.T), SortOf(ty)), ty}}, nil
	case *types.Map:
		k := Box(idx.T)
		has := smt.App(smt.Bool, "m_has", base.T, k)
		got := Unbox(smt.App(smt.V, "m_get", base.T, k), SortOf(ty))
		val := smt.Ite(has, got, e.ZeroOf(ty))
		if commaOk {
			return []Val{{val, ty}, {has, types.Typ[types.Bool]}}, nil
		}
		return []Val{{val, ty}}, nil
	case *types.Basic:
		if u.Info()&types.IsString != 0 {
			n := smt.App(smt.Int, "str_len", base.T)
			e.oblige(st, "safety", "index("+what+")", x.Pos(), smt.And(smt.Le(smt.IntLit(0), idx.T), smt.Lt(idx.T, n)))
			return []Val{{smt.App(smt.Int, "str_at", base.T, idx.T), ty}}, nil
		}
	}
	return nil, e.errf(x.Pos(), "index of %s", base.Ty)
}

func (e *Engine) evalSliceExpr(st *State, x *ast.SliceExpr) (Val, error) {
	base, err := e.eval(st, x.X)
	if err != nil {
		return Val{}, err
	}
	ty := e.typeOf(x)
	lo := smt.IntLit(0)
	if x.Low != nil {
		v, err := e.eval(st, x.Low)
		if err != nil {
			return Val{}, err
		}
		lo = v.T
	}
	what := describe(x, e.Fset)
	if isString(base.Ty) {
		n := smt.App(smt.Int, "str_len", base.T)
		hi := n
		if x.High != nil {
			v, err := e.eval(st, x.High)
			if err != nil {
				return Val{}, err
			}
			hi = v.T
		}
		e.oblige(st, "safety", "slice("+what+")", x.Pos(), smt.And(smt.Le(smt.IntLit(0), lo), smt.Le(lo, hi), smt.Le(hi, n)))
		e.Decls.Fun("str_sub", []smt.Sort{smt.V, smt.Int, smt.Int}, smt.V)
		r := smt.App(smt.V, "str_sub", base.T, lo, hi)
		st.Assume(smt.Eq(smt.App(smt.Int, "str_len", r), smt.Sub(hi, lo)))
		return Val{r, ty}, nil
	}
	var n, capT smt.T
	switch u := base.Ty.Underlying().(type) {
	case *types.Slice:
		n = smt.App(smt.Int, "s_len", base.T)
		capT = smt.App(smt.Int, "s_cap", base.T)
	case *types.Array:
		n = e.arrayLen(u)
		capT = n
	default:
		return Val{}, e.errf(x.Pos(), "slice of %s", base.Ty)
	}
	hi := n
	if x.High != nil {
		v, err := e.eval(st, x.High)
		if err != nil {
			return Val{}, err
		}
		hi = v.T
	}
	e.oblige(st, "safety", "slice("+what+")", x.Pos(), smt.And(smt.Le(smt.IntLit(0), lo), smt.Le(lo, hi), smt.Le(hi, capT)))
	return Val{smt.App(smt.V, "s_sub", base.T, lo, hi), ty}, nil
}

func (e *Engine) evalComposite(st *State, x *ast.CompositeLit) (Val, error) {
	ty := e.typeOf(x)
	// T{} of a struct or array type is the zero value of the type
	if len(x.Elts) == 0 {
		switch ty.Underlying().(type) {
		case *types.Struct, *types.Array:
			return Val{e.ZeroOf(ty), ty}, nil
		}
	}
	switch u := ty.Underlying().(type) {
	case *types.Struct:
		cur := smt.App(smt.V, "zero_of", e.TypeTerm(ty))
		// fields start at their zero values
		set := map[int]smt.T{}
		for i, el := range x.Elts {
			idx := i
			valx := el
			if kv, ok := el.(*ast.KeyValueExpr); ok {
				name := kv.Key.(*ast.Ident).Name
				j, _, ok := FieldIndex(u, name)
				if !ok {
					return Val{}, e.errf(el.Pos(), "unknown field %s", name)
				}
				idx, valx = j, kv.Value
			}
			v, err := e.eval(st, valx)
			if err != nil {
				return Val{}, err
			}
			set[idx] = Box(v.T)
		}
		r := e.Fresh("lit", smt.V)
		_ = cur
		for i := 0; i < u.NumFields(); i++ {
			v, ok := set[i]
			if !ok {
				v = Box(e.ZeroOf(u.Field(i).Type()))
			}
			st.Assume(smt.Eq(smt.App(smt.V, "f_get", r, smt.IntLit(e.FID(ty, i))), v))
		}
		return Val{r, ty}, nil
	case *types.Slice, *types.Array:
		r := e.Fresh("lit", smt.V)
		n := 0
		for _, el := range x.Elts {
			if _, ok := el.(*ast.KeyValueExpr); ok {
				return Val{}, e.errf(el.Pos(), "keyed slice literal outside the subset")
			}
			v, err := e.eval(st, el)
			if err != nil {
				return Val{}, err
			}
			st.Assume(smt.Eq(smt.App(smt.V, "s_at", r, smt.IntLit(n)), Box(v.T)))
			n++
		}
		if _, ok := u.(*types.Slice); ok {
			st.Assume(smt.Eq(smt.App(smt.Int, "s_len", r), smt.IntLit(n)))
			st.Assume(smt.Neq(r, NilV))
		}
		return Val{r, ty}, nil
	case *types.Map:
		r := e.Fresh("lit", smt.V)
		if len(x.Elts) > 0 {
			return Val{}, e.errf(x.Pos(), "non-empty map literal outside the subset")
		}
		st.Assume(smt.Neq(r, NilV))
		st.Assume(smt.Eq(smt.App(smt.Int, "m_card", r), smt.IntLit(0)))
		k := smt.Bound{Name: "k", Sort: smt.V}
		kt := smt.T{S: "k", Sort: smt.V}
		st.Assume(smt.Forall([]smt.Bound{k}, smt.Not(smt.App(smt.Bool, "m_has", r, kt)), smt.App(smt.Bool, "m_has", r, kt)))
		return Val{r, ty}, nil
	}
	return Val{}, e.errf(x.Pos(), "composite literal of %s", ty)
}

func (e *Engine) dynTypeIs(v smt.T, t types.Type) smt.T {
	return smt.Eq(smt.App(smt.Int, "dyn_type", v), e.TypeID(types.TypeString(t, nil)))
}

func (e *Engine) evalTypeAssert(st *State, x *ast.TypeAssertExpr, commaOk bool) ([]Val, error) {
	v, err := e.eval(st, x.X)
	if err != nil {
		return nil, err
	}
	ty := e.typeOf(x)
	if tup, ok := ty.(*types.Tuple); ok {
		ty = tup.At(0).Type()
		commaOk = true
	}
	if _, isIface := ty.Underlying().(*types.Interface); isIface {
		return nil, e.errf(x.Pos(), "assertion to an interface type is outside the subset")
	}
	is := smt.And(smt.Neq(v.T, NilV), e.dynTypeIs(v.T, ty))
	if commaOk {
		res := smt.Ite(is, v.T, e.ZeroOf(ty))
		return []Val{{res, ty}, {is, types.Typ[types.Bool]}}, nil
	}
	e.oblige(st, "safety", "type-assert("+describe(x, e.Fset)+")", x.Pos(), is)
	return []Val{{v.T, ty}}, nil
}

// FuncLitHook lets clients give closures a meaning.
var FuncLitHook func(e *Engine, st *State, x *ast.FuncLit) (Val, bool, error)

func (e *Engine) evalFuncLit(st *State, x *ast.FuncLit) (Val, error) {
	if FuncLitHook != nil {
		if v, ok, err := FuncLitHook(e, st, x); ok || err != nil {
			return v, err
		}
	}
	return Val{}, e.errf(x.Pos(), "function literal outside the subset")
}

// noteFresh records a fresh allocation: the new address is different from nil,
// from every earlier allocation, and from every address that exists so far -
// it is not the value of any variable, not an element of any slice a variable
// holds, and not stored (directly or as a slice element) in any field of any
// object of the heap as it is at the allocation.
func (e *Engine) noteFresh(st *State, p smt.T) {
	for _, q := range st.fresh {
		st.Assume(smt.Neq(p, q))
	}
	distinct := func(t smt.T, ty types.Type) {
		if t.Sort != smt.V || ty == nil || t.S == p.S {
			return
		}
		switch u := ty.Underlying().(type) {
		case *types.Pointer, *types.Interface:
			st.Assume(smt.Neq(p, t))
		case *types.Slice:
			switch u.Elem().Underlying().(type) {
			case *types.Pointer, *types.Interface:
				i := smt.T{S: "i?a", Sort: smt.Int}
				at := smt.App(smt.V, "s_at", t, i)
				st.Assume(smt.Forall([]smt.Bound{{Name: i.S, Sort: smt.Int}}, smt.Neq(at, p), at))
			}
		}
	}
	var vs []*types.Var
	for o := range st.vars {
		if v, ok := o.(*types.Var); ok {
			vs = append(vs, v)
		}
	}
	sortVars(vs)
	for _, v := range vs {
		distinct(st.vars[v], v.Type())
	}
	if e.entry != nil {
		var es []*types.Var
		for o := range e.entry.vars {
			if v, ok := o.(*types.Var); ok {
				es = append(es, v)
			}
		}
		sortVars(es)
		for _, v := range es {
			distinct(e.entry.vars[v], v.Type())
		}
	}
	q := smt.T{S: "q?a", Sort: smt.V}
	j := smt.T{S: "j?a", Sort: smt.Int}
	i := smt.T{S: "i?a", Sort: smt.Int}
	fld := smt.App(smt.V, "f_get", smt.App(smt.V, "select", st.heap, q), j)
	st.Assume(smt.Forall([]smt.Bound{{Name: q.S, Sort: smt.V}, {Name: j.S, Sort: smt.Int}}, smt.Neq(fld, p), fld))
	// ... nor stored as a cell's whole content (a cell of pointer type)
	cell := smt.App(smt.V, "select", st.heap, q)
	st.Assume(smt.Forall([]smt.Bound{{Name: q.S, Sort: smt.V}}, smt.Neq(cell, p), cell))
	el := smt.App(smt.V, "s_at", fld, i)
	st.Assume(smt.Forall([]smt.Bound{{Name: q.S, Sort: smt.V}, {Name: j.S, Sort: smt.Int}, {Name: i.S, Sort: smt.Int}}, smt.Neq(el, p), el))
	st.fresh = append(st.fresh, p)
}
