package vc

import (
	"fmt"
	"go/ast"
	"go/constant"
	"go/token"
	"go/types"
	"regexp"
	"strings"

	"gvc/internal/contract"
	"gvc/internal/smt"
	"gvc/internal/spec"
)

var _ = spec.Parse

// calleeKey computes the contract key of a statically known callee.
func calleeKey(f *types.Func) string {
	sig := f.Type().(*types.Signature)
	pkg := ""
	if f.Pkg() != nil {
		pkg = f.Pkg().Name()
	}
	if r := sig.Recv(); r != nil {
		t := r.Type()
		if p, ok := t.(*types.Pointer); ok {
			t = p.Elem()
		}
		switch n := t.(type) {
		case *types.Named:
			if n.Obj().Pkg() != nil {
				pkg = n.Obj().Pkg().Name()
			}
			return pkg + "." + n.Obj().Name() + "." + f.Name()
		case *types.Interface:
			// method of an embedded/anonymous interface: find by name only
			return pkg + ".?." + f.Name()
		}
	}
	return pkg + "." + f.Name()
}

func (e *Engine) staticCallee(call *ast.CallExpr) *types.Func {
	switch f := ast.Unparen(call.Fun).(type) {
	case *ast.Ident:
		fn, _ := e.info().ObjectOf(f).(*types.Func)
		return fn
	case *ast.SelectorExpr:
		if sel := e.info().Selections[f]; sel != nil {
			if sel.Kind() == types.MethodVal {
				fn, _ := sel.Obj().(*types.Func)
				return fn
			}
			return nil
		}
		fn, _ := e.info().ObjectOf(f.Sel).(*types.Func)
		return fn
	}
	return nil
}

// methodKeyAt: for interface methods the key uses the static receiver type at
// the call site (derive.Plugin.GetPrefix).
func (e *Engine) methodKeyAt(call *ast.CallExpr, fn *types.Func) string {
	if se, ok := ast.Unparen(call.Fun).(*ast.SelectorExpr); ok {
		if sel := e.info().Selections[se]; sel != nil && sel.Kind() == types.MethodVal {
			t := sel.Recv()
			if p, ok := t.(*types.Pointer); ok {
				t = p.Elem()
			}
			if n, ok := t.(*types.Named); ok {
				if _, isIface := n.Underlying().(*types.Interface); isIface && n.Obj().Pkg() != nil {
					return n.Obj().Pkg().Name() + "." + n.Obj().Name() + "." + fn.Name()
				}
			}
		}
	}
	return calleeKey(fn)
}

func (e *Engine) callMayWriteHeap(call *ast.CallExpr) bool {
	if tv, ok := e.info().Types[call.Fun]; ok && tv.IsType() {
		return false
	}
	if id, ok := ast.Unparen(call.Fun).(*ast.Ident); ok {
		if _, isB := e.info().ObjectOf(id).(*types.Builtin); isB {
			return false
		}
	}
	fn := e.staticCallee(call)
	if fn == nil {
		return false // function values are assumed not to write modelled memory
	}
	con := e.Contracts.Funcs[e.methodKeyAt(call, fn)]
	if con == nil {
		return false // reported as an error when executed
	}
	for _, a := range con.Assigns {
		if strings.ContainsAny(a, ".*[") {
			return true
		}
	}
	return false
}

// callGhostAssigns: ghost state variables a callee's contract assigns.
func (e *Engine) callGhostAssigns(call *ast.CallExpr) []string {
	if tv, ok := e.info().Types[call.Fun]; ok && tv.IsType() {
		return nil
	}
	fn := e.staticCallee(call)
	if fn == nil {
		return nil
	}
	con := e.Contracts.Funcs[e.methodKeyAt(call, fn)]
	if con == nil {
		return nil
	}
	var out []string
	for _, a := range con.Assigns {
		if !strings.ContainsAny(a, ".*[") {
			out = append(out, a)
		}
	}
	return out
}

func (e *Engine) evalCall(st *State, call *ast.CallExpr) ([]Val, error) {
	// conversion
	if tv, ok := e.info().Types[call.Fun]; ok && tv.IsType() {
		v, err := e.eval(st, call.Args[0])
		if err != nil {
			return nil, err
		}
		r, err := e.convert(st, v, tv.Type, call.Pos())
		return []Val{r}, err
	}
	// builtin
	if id, ok := ast.Unparen(call.Fun).(*ast.Ident); ok {
		if b, isB := e.info().ObjectOf(id).(*types.Builtin); isB {
			return e.evalBuiltin(st, call, b.Name())
		}
	}
	// arguments (left to right)
	evalArgs := func() ([]Val, error) {
		var args []Val
		for _, a := range call.Args {
			vs, err := e.evalMulti(st, a)
			if err != nil {
				return nil, err
			}
			args = append(args, vs...)
		}
		return args, nil
	}
	fn := e.staticCallee(call)
	if fn != nil && len(call.Args) >= 1 && e.methodKeyAt(call, fn) == "fmt.Sprintf" && !call.Ellipsis.IsValid() {
		if v, ok, err := e.sprintfAsConcat(st, call); err != nil {
			return nil, err
		} else if ok {
			return []Val{v}, nil
		}
	}
	if fn != nil && len(call.Args) == 2 && e.methodKeyAt(call, fn) == "sort.Slice" {
		if lit, ok := ast.Unparen(call.Args[1]).(*ast.FuncLit); ok {
			return nil, e.sortSlice(st, call, lit)
		}
	}
	// client hook (Layer O placeholders, helper functions)
	if e.Hook != nil {
		name := ""
		switch f := ast.Unparen(call.Fun).(type) {
		case *ast.Ident:
			name = f.Name
		case *ast.SelectorExpr:
			name = describe(f, e.Fset)
		}
		if name != "" {
			args, err := evalArgs()
			if err != nil {
				return nil, err
			}
			vs, handled, err := e.Hook(e, st, call, name, args)
			if err != nil {
				return nil, err
			}
			if handled {
				return vs, nil
			}
			// fall through with the evaluated arguments
			return e.finishCall(st, call, fn, args)
		}
	}
	args, err := evalArgs()
	if err != nil {
		return nil, err
	}
	return e.finishCall(st, call, fn, args)
}

func (e *Engine) finishCall(st *State, call *ast.CallExpr, fn *types.Func, args []Val) ([]Val, error) {
	if fn != nil {
		key := e.methodKeyAt(call, fn)
		if err := e.assertAtCall(st, key, call); err != nil {
			return nil, err
		}

		con := e.Contracts.Funcs[key]
		if con == nil {
			con = e.defaultPure(fn, key)
		}
		if con == nil {
			return nil, e.errf(call.Pos(), "call of %s: no contract (key %s)", fn.FullName(), key)
		}
		var recv *Val
		if se, ok := ast.Unparen(call.Fun).(*ast.SelectorExpr); ok {
			if sel := e.info().Selections[se]; sel != nil && sel.Kind() == types.MethodVal {
				r, err := e.eval(st, se.X)
				if err != nil {
					return nil, err
				}
				// implicit address-of / dereference and embedded-field path
				if len(sel.Index()) > 1 {
					r, err = e.fieldPath(st, r, sel.Index()[:len(sel.Index())-1], se.Pos(), describe(se.X, e.Fset))
					if err != nil {
						return nil, err
					}
				}
				recv = &r
				if _, isIface := r.Ty.Underlying().(*types.Interface); isIface {
					e.oblige(st, "safety", "nil-interface-call("+describe(se, e.Fset)+")", call.Pos(), smt.Neq(r.T, NilV))
				}
			}
		}
		sig := fn.Type().(*types.Signature)
		// pack variadic arguments
		if sig.Variadic() && !call.Ellipsis.IsValid() {
			np := sig.Params().Len()
			fixed := args[:np-1]
			rest := args[np-1:]
			sl := e.Fresh("varargs", smt.V)
			st.Assume(smt.Eq(smt.App(smt.Int, "s_len", sl), smt.IntLit(len(rest))))
			for i, r := range rest {
				st.Assume(smt.Eq(smt.App(smt.V, "s_at", sl, smt.IntLit(i)), Box(r.T)))
			}
			if len(rest) == 0 {
				st.Assume(smt.Eq(sl, NilV))
			} else {
				st.Assume(smt.Neq(sl, NilV))
			}
			args = append(append([]Val{}, fixed...), Val{sl, sig.Params().At(np - 1).Type()})
		}
		var resTypes []types.Type
		for i := 0; i < sig.Results().Len(); i++ {
			resTypes = append(resTypes, sig.Results().At(i).Type())
		}
		// arguments the callee mutates in place (slices sorted or filled by the
		// callee): attribute "mutates-arg: <param>"; final(<param>) in the
		// callee's ensures denotes the argument's value after the call
		finals := map[string]Val{}
		var finalTargets []struct {
			x ast.Expr
			v Val
		}
		for _, mp := range con.Attrs["mutates-arg"] {
			mp = strings.TrimSpace(mp)
			for i, pn := range con.Params {
				if pn != mp || i >= len(call.Args) {
					continue
				}
				if e.ArgOwnership && !e.ownedArgument(call.Args[i]) {
					e.oblige(st, "safety", "mutated-argument-owned("+key+", "+describe(call.Args[i], e.Fset)+")", call.Args[i].Pos(), smt.False)
				}
				nv := Val{e.Fresh("final!"+mp, args[i].T.Sort), args[i].Ty}
				finals[mp] = nv
				finalTargets = append(finalTargets, struct {
					x ast.Expr
					v Val
				}{call.Args[i], nv})
			}
		}
		e.finals = finals
		outs, err := e.ApplyContract(st, con, recv, args, resTypes, call.Pos())
		e.finals = nil
		if err != nil {
			return nil, err
		}
		for _, ft := range finalTargets {
			if err := e.assign(st, ft.x, ft.v); err != nil {
				return nil, e.errf(call.Pos(), "mutates-arg: argument is not assignable: %v", err)
			}
		}
		if err := e.assertAfterCall(st, key, call, outs); err != nil {
			return nil, err
		}
		return outs, nil
	}
	// dynamic call of a function value: uninterpreted, deterministic, traced
	fv, err := e.eval(st, call.Fun)
	if err != nil {
		return nil, err
	}
	e.oblige(st, "safety", "nil-func-call("+describe(call.Fun, e.Fset)+")", call.Pos(), smt.Neq(fv.T, NilV))
	return e.DynCall(st, fv, args, call.Pos())
}

// DynCall models a call through a function value.
func (e *Engine) DynCall(st *State, fv Val, args []Val, pos token.Pos) ([]Val, error) {
	sig, ok := fv.Ty.Underlying().(*types.Signature)
	if !ok {
		return nil, e.errf(pos, "call of non-function value")
	}
	var out []Val
	for i := 0; i < sig.Results().Len(); i++ {
		out = append(out, e.applyTerm(fv, args, sig, i))
	}
	if e.TraceOn {
		// trace := trace ++ [call(f, args)]
		boxed := []smt.T{fv.T}
		bs := []smt.Sort{smt.V}
		for _, a := range args {
			boxed = append(boxed, Box(a.T))
			bs = append(bs, smt.V)
		}
		cn := fmt.Sprintf("mkcall%d", len(args))
		e.Decls.Fun(cn, bs, smt.V)
		ev := smt.App(smt.V, cn, boxed...)
		tr, _ := st.named["$trace"]
		st.named["$trace"] = Val{smt.App(smt.V, "s_app", tr.T, ev), nil}
	}
	return out, nil
}

// ConvHook lets a client give meaning to specific conversions.
var ConvHook func(e *Engine, st *State, v Val, to types.Type) (Val, bool)

func (e *Engine) convert(st *State, v Val, to types.Type, pos token.Pos) (Val, error) {
	if ConvHook != nil {
		if r, ok := ConvHook(e, st, v, to); ok {
			return r, nil
		}
	}
	from := v.T.Sort
	want := SortOf(to)
	if from == want {
		if from == smt.V && v.Ty != nil {
			// string <-> []byte / []rune, float <-> float: uninterpreted unless same underlying
			fu, tu := v.Ty.Underlying(), to.Underlying()
			if !types.Identical(fu, tu) && !(isNilable(v.Ty) && isNilable(to)) {
				f := smt.Ident("conv!" + typeKey(fu) + "!" + typeKey(tu))
				e.Decls.Fun(f, []smt.Sort{smt.V}, smt.V)
				return Val{smt.App(smt.V, f, v.T), to}, nil
			}
		}
		return Val{v.T, to}, nil // integer <-> integer: mathematical (A-int)
	}
	f := smt.Ident("conv!" + string(from) + "!" + typeKey(to.Underlying()))
	e.Decls.Fun(f, []smt.Sort{from}, want)
	return Val{smt.App(want, f, v.T), to}, nil
}

func (e *Engine) evalBuiltin(st *State, call *ast.CallExpr, name string) ([]Val, error) {
	ty := e.typeOf(call)
	arg := func(i int) (Val, error) { return e.eval(st, call.Args[i]) }
	switch name {
	case "len":
		v, err := arg(0)
		if err != nil {
			return nil, err
		}
		n, err := e.lenOf(v)
		if err != nil {
			return nil, e.errf(call.Pos(), "%v", err)
		}
		return []Val{{n, ty}}, nil
	case "cap":
		v, err := arg(0)
		if err != nil {
			return nil, err
		}
		return []Val{{smt.App(smt.Int, "s_cap", v.T), ty}}, nil
	case "append":
		s, err := arg(0)
		if err != nil {
			return nil, err
		}
		cur := s.T
		if call.Ellipsis.IsValid() {
			t, err := arg(1)
			if err != nil {
				return nil, err
			}
			r := smt.App(smt.V, "s_cat", cur, t.T)
			// appending nothing to nil stays nil; otherwise non-nil
			st.Assume(smt.Eq(smt.Eq(r, NilV), smt.And(smt.Eq(cur, NilV), smt.Eq(smt.App(smt.Int, "s_len", t.T), smt.IntLit(0)))))
			return []Val{{r, ty}}, nil
		}
		for i := 1; i < len(call.Args); i++ {
			v, err := arg(i)
			if err != nil {
				return nil, err
			}
			cur = smt.App(smt.V, "s_app", cur, Box(v.T))
		}
		return []Val{{cur, ty}}, nil
	case "make":
		r := e.Fresh("make", smt.V)
		st.Assume(smt.Neq(r, NilV))
		switch u := ty.Underlying().(type) {
		case *types.Slice:
			n, err := arg(1)
			if err != nil {
				return nil, err
			}
			e.oblige(st, "safety", "make-len("+describe(call, e.Fset)+")", call.Pos(), smt.Ge(n.T, smt.IntLit(0)))
			st.Assume(smt.Eq(smt.App(smt.Int, "s_len", r), n.T))
			if len(call.Args) > 2 {
				c, err := arg(2)
				if err != nil {
					return nil, err
				}
				e.oblige(st, "safety", "make-cap("+describe(call, e.Fset)+")", call.Pos(), smt.Ge(c.T, n.T))
				st.Assume(smt.Eq(smt.App(smt.Int, "s_cap", r), c.T))
			} else {
				st.Assume(smt.Eq(smt.App(smt.Int, "s_cap", r), n.T))
			}
			j := smt.T{S: "j", Sort: smt.Int}
			st.Assume(smt.Forall([]smt.Bound{{Name: "j", Sort: smt.Int}},
				smt.Eq(smt.App(smt.V, "s_at", r, j), Box(e.ZeroOf(u.Elem()))), smt.App(smt.V, "s_at", r, j)))
		case *types.Map:
			for i := 1; i < len(call.Args); i++ {
				if _, err := arg(i); err != nil {
					return nil, err
				}
			}
			st.Assume(smt.Eq(smt.App(smt.Int, "m_card", r), smt.IntLit(0)))
			k := smt.T{S: "k", Sort: smt.V}
			st.Assume(smt.Forall([]smt.Bound{{Name: "k", Sort: smt.V}}, smt.Not(smt.App(smt.Bool, "m_has", r, k)), smt.App(smt.Bool, "m_has", r, k)))
		case *types.Chan:
			// channels carry no semantics here
		}
		return []Val{{r, ty}}, nil
	case "new":
		p := e.Fresh("new", smt.V)
		st.Assume(smt.Neq(p, NilV))
		et := ty.Underlying().(*types.Pointer).Elem()
		st.heap = smt.App(smt.Heap, "store", st.heap, p, Box(e.ZeroOf(et)))
		e.noteFresh(st, p)
		if AllocHook != nil {
			AllocHook(e, st, p)
		}
		return []Val{{p, ty}}, nil
	case "copy":
		d, err := arg(0)
		if err != nil {
			return nil, err
		}
		s, err := arg(1)
		if err != nil {
			return nil, err
		}
		// dst' has min(len) elements from src
		r := e.Fresh("copied", smt.V)
		dl, sl := smt.App(smt.Int, "s_len", d.T), smt.App(smt.Int, "s_len", s.T)
		n := smt.Ite(smt.Le(dl, sl), dl, sl)
		st.Assume(smt.Eq(smt.App(smt.Int, "s_len", r), dl))
		st.Assume(smt.Eq(smt.Eq(r, NilV), smt.Eq(d.T, NilV)))
		j := smt.T{S: "j", Sort: smt.Int}
		st.Assume(smt.Forall([]smt.Bound{{Name: "j", Sort: smt.Int}},
			smt.Eq(smt.App(smt.V, "s_at", r, j), smt.Ite(smt.And(smt.Le(smt.IntLit(0), j), smt.Lt(j, n)), smt.App(smt.V, "s_at", s.T, j), smt.App(smt.V, "s_at", d.T, j))),
			smt.App(smt.V, "s_at", r, j)))
		if err := e.assign(st, call.Args[0], Val{r, d.Ty}); err != nil {
			// destination is not an assignable expression (e.g. a slice expression): value lost
			return nil, e.errf(call.Pos(), "copy into a non-variable destination is outside the subset")
		}
		return []Val{{n, types.Typ[types.Int]}}, nil
	case "delete":
		m, err := arg(0)
		if err != nil {
			return nil, err
		}
		k, err := arg(1)
		if err != nil {
			return nil, err
		}
		e.inPlaceWrite(st, call.Args[0], call.Pos())
		if err := e.assign(st, call.Args[0], Val{smt.App(smt.V, "m_del", m.T, Box(k.T)), m.Ty}); err != nil {
			return nil, err
		}
		return nil, nil
	case "panic":
		e.oblige(st, "safety", "panic-unreachable("+describe(call, e.Fset)+")", call.Pos(), smt.False)
		st.Assume(smt.False)
		return nil, nil
	case "close":
		if _, err := arg(0); err != nil {
			return nil, err
		}
		return nil, nil
	case "min", "max":
		a, err := arg(0)
		if err != nil {
			return nil, err
		}
		b, err := arg(1)
		if err != nil {
			return nil, err
		}
		if a.T.Sort == smt.Int {
			if name == "min" {
				return []Val{{smt.Ite(smt.Le(a.T, b.T), a.T, b.T), ty}}, nil
			}
			return []Val{{smt.Ite(smt.Ge(a.T, b.T), a.T, b.T), ty}}, nil
		}
	}
	if (name == "real" || name == "imag") && len(call.Args) == 1 {
		// the parts of a complex number: functions of the value that respect ==
		a, err := e.eval(st, call.Args[0])
		if err != nil {
			return nil, err
		}
		if !e.Decls.HasFun("cplx_re") {
			e.Decls.Fun("cplx_re", []smt.Sort{smt.V}, smt.V)
			e.Decls.Fun("cplx_im", []smt.Sort{smt.V}, smt.V)
			x, y := smt.T{S: "x", Sort: smt.V}, smt.T{S: "y", Sort: smt.V}
			re := func(t smt.T) smt.T { return smt.App(smt.V, "cplx_re", t) }
			im := func(t smt.T) smt.T { return smt.App(smt.V, "cplx_im", t) }
			feq := func(a, b smt.T) smt.T { return smt.App(smt.Bool, "flt_eq", a, b) }
			e.Axioms = append(e.Axioms, smt.Forall([]smt.Bound{{Name: "x", Sort: smt.V}, {Name: "y", Sort: smt.V}},
				smt.Eq(feq(x, y), smt.And(feq(re(x), re(y)), feq(im(x), im(y)))), feq(x, y)))
		}
		f := "cplx_re"
		if name == "imag" {
			f = "cplx_im"
		}
		return []Val{{smt.App(smt.V, f, a.T), e.typeOf(call)}}, nil
	}
	return nil, e.errf(call.Pos(), "builtin %s is outside the subset", name)
}

// AllocHook is told about fresh allocations (heap model of Layer O).
var AllocHook func(e *Engine, st *State, p smt.T)

// ApplyContract replaces a call by the callee's contract.
func (e *Engine) ApplyContract(st *State, con *contract.Func, recv *Val, args []Val, resTypes []types.Type, pos token.Pos) ([]Val, error) {
	if e.UsedContracts == nil {
		e.UsedContracts = map[string]bool{}
	}
	e.UsedContracts[con.Key] = true
	bound := map[string]Val{}
	if recv != nil && con.Recv != "" {
		bound[con.Recv] = *recv
	}
	if len(args) != len(con.Params) {
		return nil, e.errf(pos, "contract %s has %d parameters, call passes %d", con.Key, len(con.Params), len(args))
	}
	for i, p := range con.Params {
		bound[p] = args[i]
	}
	for k, v := range e.ExtraBound[con.Key] {
		if _, shadow := bound[k]; !shadow {
			bound[k] = v
		}
	}
	for k, v := range e.finals {
		bound["final!"+k] = v
	}
	pre := st.Clone()
	for i, r := range con.Requires {
		env := &SpecEnv{E: e, St: st, Old: pre, Bound: bound, Callee: true, Pkg: keyPkg(con.Key)}
		v, err := e.evalSpec(env, r.Expr)
		if err != nil {
			return nil, fmt.Errorf("%s:%d: %v", r.File, r.Line, err)
		}
		name := r.Name
		if name == "" {
			name = fmt.Sprintf("#%d", i+1)
		}
		e.oblige(st, "pre", con.Key+name, pos, v.T)
	}
	var recvInv []contract.Clause
	if recv != nil && recv.Ty != nil && len(con.Attrs["noinv"]) == 0 {
		recvInv = e.Contracts.Invs[typeInvKey(recv.Ty)]
		for i, iv := range recvInv {
			env := &SpecEnv{E: e, St: st, Old: pre, Bound: map[string]Val{"self": *recv}, Callee: true, Pkg: keyPkg(con.Key)}
			v, err := e.evalSpec(env, iv.Expr)
			if err != nil {
				return nil, fmt.Errorf("%s:%d: %v", iv.File, iv.Line, err)
			}
			name := iv.Name
			if name == "" {
				name = fmt.Sprintf("#%d", i+1)
			}
			e.oblige(st, "pre", con.Key+".inv"+name, pos, v.T)
		}
	}
	pure := len(con.Attrs["pure"]) > 0
	if !pure && !con.Assigned {
		return nil, e.errf(pos, "contract %s has neither 'pure' nor an 'assigns' clause", con.Key)
	}
	if len(con.Assigns) > 0 {
		if err := e.havocAssigns(st, pre, con, bound); err != nil {
			return nil, e.errf(pos, "%v", err)
		}
	}
	if len(resTypes) != len(con.Results) && len(con.Results) != 0 {
		return nil, e.errf(pos, "contract %s names %d results, function has %d", con.Key, len(con.Results), len(resTypes))
	}
	var out []Val
	b2 := map[string]Val{}
	for k, v := range bound {
		b2[k] = v
	}
	for i, rt := range resTypes {
		var t smt.T
		if pure {
			fname := smt.Ident("fn!" + con.Key)
			if len(resTypes) > 1 {
				fname += fmt.Sprintf("!r%d", i)
			}
			var sorts []smt.Sort
			var terms []smt.T
			if recv != nil {
				sorts = append(sorts, recv.T.Sort)
				terms = append(terms, recv.T)
			}
			for _, a := range args {
				sorts = append(sorts, a.T.Sort)
				terms = append(terms, a.T)
			}
			if len(con.Attrs["reads-heap"]) > 0 {
				sorts = append(sorts, smt.Heap)
				terms = append(terms, st.heap)
			}
			e.Decls.Fun(fname, sorts, SortOf(rt))
			t = smt.App(SortOf(rt), fname, terms...)
		} else {
			t = e.Fresh("ret!"+con.Key, SortOf(rt))
		}
		v := Val{t, rt}
		e.typeFacts(st, v)
		out = append(out, v)
		if i < len(con.Results) {
			b2[con.Results[i]] = v
		}
	}
	for _, iv := range recvInv {
		env := &SpecEnv{E: e, St: st, Old: pre, Bound: map[string]Val{"self": *recv}, Callee: true, Pkg: keyPkg(con.Key)}
		v, err := e.evalSpec(env, iv.Expr)
		if err != nil {
			return nil, fmt.Errorf("%s:%d: %v", iv.File, iv.Line, err)
		}
		st.Assume(v.T)
	}
	for _, en := range con.Ensures {
		if mentionsLocalGhost(con, en.Text) {
			// a clause over the callee's own history variables says nothing a caller can name
			continue
		}
		env := &SpecEnv{E: e, St: st, Old: pre, Bound: b2, Callee: true, Pkg: keyPkg(con.Key)}
		v, err := e.evalSpec(env, en.Expr)
		if err != nil {
			return nil, fmt.Errorf("%s:%d: %v", en.File, en.Line, err)
		}
		st.AssumeFact(v.T)
	}
	return out, nil
}

// havocAssigns gives fresh values to exactly the locations of the assigns
// clause and keeps everything else (frame).
func (e *Engine) havocAssigns(st, pre *State, con *contract.Func, bound map[string]Val) error {
	type target struct {
		obj    smt.T
		fields map[int]bool // nil: whole object
	}
	var targets []*target
	find := func(obj smt.T) *target {
		for _, t := range targets {
			if t.obj.S == obj.S {
				return t
			}
		}
		t := &target{obj: obj, fields: map[int]bool{}}
		targets = append(targets, t)
		return t
	}
	var anyFids []int
	for _, a := range con.Assigns {
		if strings.HasPrefix(a, "any ") {
			fid, err := e.anyFieldID(strings.TrimSpace(a[4:]))
			if err != nil {
				return fmt.Errorf("assigns %q: %v", a, err)
			}
			anyFids = append(anyFids, fid)
			continue
		}
		x, err := spec.Parse(a)
		if err != nil {
			return fmt.Errorf("assigns %q: %v", a, err)
		}
		env := &SpecEnv{E: e, St: pre, Old: pre, Bound: bound, Callee: true, Pkg: keyPkg(con.Key)}
		switch x := x.(type) {
		case *spec.Ident:
			// ghost state variable
			if gv, ok := st.named[x.Name]; ok {
				st.named[x.Name] = Val{e.Fresh(x.Name, gv.T.Sort), gv.Ty}
				continue
			}
			return fmt.Errorf("assigns %q: not a ghost state variable", a)
		case *spec.Select:
			base, err := e.evalSpec(env, x.X)
			if err != nil {
				return err
			}
			pt, ok := base.Ty.Underlying().(*types.Pointer)
			if !ok {
				return fmt.Errorf("assigns %q: base is not a pointer", a)
			}
			stt, ok := pt.Elem().Underlying().(*types.Struct)
			if !ok {
				return fmt.Errorf("assigns %q: not a struct field", a)
			}
			idx, _, ok := FieldIndex(stt, x.Name)
			if !ok {
				return fmt.Errorf("assigns %q: no such field", a)
			}
			idx = e.FID(pt.Elem(), idx)
			t := find(base.T)
			if t.fields != nil {
				t.fields[idx] = true
			}
		case *spec.Unary:
			if x.Op != "*" {
				return fmt.Errorf("assigns %q: unsupported", a)
			}
			base, err := e.evalSpec(env, x.X)
			if err != nil {
				return err
			}
			find(base.T).fields = nil
		default:
			return fmt.Errorf("assigns %q: unsupported target", a)
		}
	}
	if len(targets) == 0 && len(anyFids) == 0 {
		return nil
	}
	h0 := st.heap
	h1 := e.Fresh("heap", smt.Heap)
	p := smt.T{S: "p", Sort: smt.V}
	var notTarget []smt.T
	for _, t := range targets {
		notTarget = append(notTarget, smt.Neq(p, t.obj))
	}
	if len(anyFids) > 0 {
		// type-level field assigns: any object's field with one of these
		// identifiers may change; every other field of every object that is not a
		// named target keeps its value
		jj := smt.T{S: "j", Sort: smt.Int}
		var ne []smt.T
		for _, f := range anyFids {
			ne = append(ne, smt.Neq(jj, smt.IntLit(f)))
		}
		o1 := smt.App(smt.V, "f_get", smt.App(smt.V, "select", h1, p), jj)
		o0 := smt.App(smt.V, "f_get", smt.App(smt.V, "select", h0, p), jj)
		st.Assume(smt.Forall([]smt.Bound{{Name: "p", Sort: smt.V}, {Name: "j", Sort: smt.Int}},
			smt.Implies(smt.And(append(notTarget, ne...)...), smt.Eq(o1, o0)), o1))
	} else {
		st.Assume(smt.Forall([]smt.Bound{{Name: "p", Sort: smt.V}},
			smt.Implies(smt.And(notTarget...), smt.Eq(smt.App(smt.V, "select", h1, p), smt.App(smt.V, "select", h0, p))),
			smt.App(smt.V, "select", h1, p)))
	}
	for _, t := range targets {
		if t.fields == nil {
			continue
		}
		j := smt.T{S: "j", Sort: smt.Int}
		var keep []smt.T
		for _, idx := range sortedInts(t.fields) {
			keep = append(keep, smt.Neq(j, smt.IntLit(idx)))
		}
		o1 := smt.App(smt.V, "select", h1, t.obj)
		o0 := smt.App(smt.V, "select", h0, t.obj)
		st.Assume(smt.Forall([]smt.Bound{{Name: "j", Sort: smt.Int}},
			smt.Implies(smt.And(keep...), smt.Eq(smt.App(smt.V, "f_get", o1, j), smt.App(smt.V, "f_get", o0, j))),
			smt.App(smt.V, "f_get", o1, j)))
	}
	st.heap = h1
	return nil
}

func sortedInts(m map[int]bool) []int {
	var ks []int
	for k := range m {
		ks = append(ks, k)
	}
	for i := 1; i < len(ks); i++ {
		for j := i; j > 0 && ks[j] < ks[j-1]; j-- {
			ks[j], ks[j-1] = ks[j-1], ks[j]
		}
	}
	return ks
}

func (e *Engine) execReturn(st *State, s *ast.ReturnStmt) ([]outcome, error) {
	sig := e.cur.Obj.Type().(*types.Signature)
	if e.litSig != nil {
		sig = e.litSig
	}
	if RetSigHook != nil {
		if s2 := RetSigHook(e, s); s2 != nil {
			sig = s2
		}
	}
	n := sig.Results().Len()
	var vals []Val
	if len(s.Results) == 0 && n > 0 {
		for i := 0; i < n; i++ {
			r := sig.Results().At(i)
			t, ok := st.vars[r]
			if !ok {
				return nil, e.errf(s.Pos(), "bare return without named results")
			}
			vals = append(vals, Val{t, r.Type()})
		}
	} else if len(s.Results) == 1 && n > 1 {
		vs, err := e.evalMulti(st, s.Results[0])
		if err != nil {
			return nil, err
		}
		vals = vs
	} else {
		for _, r := range s.Results {
			v, err := e.eval(st, r)
			if err != nil {
				return nil, err
			}
			vals = append(vals, v)
		}
	}
	if len(vals) != n {
		return nil, e.errf(s.Pos(), "return count mismatch")
	}
	for i := range vals {
		rt := sig.Results().At(i).Type()
		if vals[i].T.Sort != SortOf(rt) {
			return nil, e.errf(s.Pos(), "return sort mismatch")
		}
		st.named[fmt.Sprintf("$res%d", i)] = Val{vals[i].T, rt}
	}
	st.named["$retord"] = Val{smt.IntLit(e.retOrd[s]), nil}
	return []outcome{{st: st, kind: oReturn}}, nil
}

// RetSigHook lets a client override the signature used for return statements
// (returns inside function literals).
var RetSigHook func(e *Engine, s *ast.ReturnStmt) *types.Signature

func keyPkg(key string) string {
	if i := strings.Index(key, "."); i > 0 {
		return key[:i]
	}
	return key
}

// applyTerm: result i of applying a function value to arguments (uninterpreted, deterministic).
func (e *Engine) applyTerm(fv Val, args []Val, sig *types.Signature, i int) Val {
	sorts := []smt.Sort{smt.V}
	terms := []smt.T{fv.T}
	for _, a := range args {
		sorts = append(sorts, a.T.Sort)
		terms = append(terms, a.T)
	}
	rt := sig.Results().At(i).Type()
	name := fmt.Sprintf("apply%d!r%d", len(args), i)
	for _, s := range sorts[1:] {
		name += "!" + string(s[0])
	}
	name += "!" + string(SortOf(rt)[0])
	e.Decls.Fun(name, sorts, SortOf(rt))
	return Val{smt.App(SortOf(rt), name, terms...), rt}
}

// assertAtCall: "assert-at-call <callee key>: P" clauses of the contract under
// verification are proof obligations at every call of that callee, evaluated
// in the caller's state and scope.
func (e *Engine) assertAtCall(st *State, key string, call *ast.CallExpr) error {
	if e.curCon == nil {
		return nil
	}
	for i, a := range e.curCon.Attrs["assert-at-call"] {
		j := strings.Index(a, ":")
		if j < 0 || strings.TrimSpace(a[:j]) != key {
			continue
		}
		text := strings.TrimSpace(a[j+1:])
		label := fmt.Sprintf("#%d", i+1)
		if strings.HasPrefix(text, "[") {
			if k := strings.Index(text, "]"); k > 0 {
				label, text = ":"+text[1:k], strings.TrimSpace(text[k+1:])
			}
		}
		x, err := spec.Parse(text)
		if err != nil {
			return fmt.Errorf("%s: assert-at-call of %s: %v", e.curCon.File, e.curCon.Key, err)
		}
		env := e.newEnv(st, call.Pos())
		// $arg<i>: the call's argument values
		if strings.Contains(text, "$arg") {
			for k, ax := range call.Args {
				if av, err := e.eval(st.Clone(), ax); err == nil {
					env.Bound[fmt.Sprintf("$arg%d", k)] = av
				}
			}
		}
		// $recv: the value the method is called on, whatever the code calls it
		if strings.Contains(text, "$recv") {
			if se, ok := ast.Unparen(call.Fun).(*ast.SelectorExpr); ok {
				if rv, err := e.eval(st.Clone(), se.X); err == nil {
					env.Bound["$recv"] = rv
				}
			}
		}
		v, err := e.evalSpec(env, x)
		if err != nil {
			return fmt.Errorf("%s: assert-at-call of %s: %v", e.curCon.File, e.curCon.Key, err)
		}
		e.oblige(st, "assert", fmt.Sprintf("at-call(%s)%s", key, label), call.Pos(), v.T)
	}
	return nil
}

// sprintfAsConcat: fmt.Sprintf with a constant format made of literal text and
// the verbs %s (string argument), %d (int argument) and %v (string or int) is
// the concatenation, left to right, of the literal pieces and the arguments
// (integers through strconv.Itoa): the same term a hand-written
// a + "_" + b + strconv.Itoa(i) produces. Other formats are left to the contract
// of fmt.Sprintf.
func (e *Engine) sprintfAsConcat(st *State, call *ast.CallExpr) (Val, bool, error) {
	tv, ok := e.info().Types[call.Args[0]]
	if !ok || tv.Value == nil || tv.Value.Kind() != constant.String {
		return Val{}, false, nil
	}
	format := constant.StringVal(tv.Value)
	type piece struct {
		lit  string
		verb byte
	}
	var pieces []piece
	cur := ""
	for i := 0; i < len(format); i++ {
		if format[i] != '%' {
			cur += string(format[i])
			continue
		}
		if i+1 >= len(format) {
			return Val{}, false, nil
		}
		i++
		switch format[i] {
		case '%':
			cur += "%"
		case 's', 'd', 'v':
			if cur != "" {
				pieces = append(pieces, piece{lit: cur})
				cur = ""
			}
			pieces = append(pieces, piece{verb: format[i]})
		default:
			return Val{}, false, nil
		}
	}
	if cur != "" {
		pieces = append(pieces, piece{lit: cur})
	}
	itoa := e.Contracts.Funcs["strconv.Itoa"]
	strTy := types.Typ[types.String]
	var acc *smt.T
	argi := 1
	for _, p := range pieces {
		var t smt.T
		if p.verb == 0 {
			t = e.StrLit(p.lit)
		} else {
			if argi >= len(call.Args) {
				return Val{}, false, nil
			}
			a, err := e.eval(st, call.Args[argi])
			if err != nil {
				return Val{}, false, err
			}
			argi++
			switch {
			case isString(a.Ty) && (p.verb == 's' || p.verb == 'v'):
				t = a.T
			case a.T.Sort == smt.Int && (p.verb == 'd' || p.verb == 'v') && itoa != nil:
				outs, err := e.ApplyContract(st, itoa, nil, []Val{a}, []types.Type{strTy}, call.Pos())
				if err != nil || len(outs) != 1 {
					return Val{}, false, nil
				}
				t = outs[0].T
			default:
				return Val{}, false, nil
			}
		}
		if acc == nil {
			acc = &t
		} else {
			c := smt.App(smt.V, "str_cat", *acc, t)
			acc = &c
		}
	}
	if argi != len(call.Args) {
		return Val{}, false, nil
	}
	if acc == nil {
		l := e.StrLit("")
		acc = &l
	}
	return Val{*acc, strTy}, true, nil
}

// sortSlice models sort.Slice(x, func(i, j int) bool { return E }) where E
// reads x only through x[i] and x[j]: E defines a relation less(s, i, j); the
// obligations are that it is a strict weak order on every slice content, and
// afterwards x is a permutation of its old content with no inversion.
func (e *Engine) sortSlice(st *State, call *ast.CallExpr, lit *ast.FuncLit) error {
	id, ok := ast.Unparen(call.Args[0]).(*ast.Ident)
	if !ok {
		return e.errf(call.Pos(), "sort.Slice on a non-variable")
	}
	xv, ok := e.info().ObjectOf(id).(*types.Var)
	if !ok {
		return e.errf(call.Pos(), "sort.Slice on a non-variable")
	}
	sig := e.info().TypeOf(lit).(*types.Signature)
	if sig.Params().Len() != 2 {
		return e.errf(call.Pos(), "sort.Slice: less function outside the subset")
	}
	old := st.vars[xv]
	n := smt.App(smt.Int, "s_len", old)
	// less as a term over a generic content S and indices I, J
	S := e.Fresh("sortS", smt.V)
	I := e.Fresh("sortI", smt.Int)
	J := e.Fresh("sortJ", smt.Int)
	sub := st.Clone()
	sub.vars[xv] = S
	sub.vars[sig.Params().At(0)] = I
	sub.vars[sig.Params().At(1)] = J
	sub.Assume(smt.Eq(smt.App(smt.Int, "s_len", S), n))
	sub.Assume(smt.And(smt.Le(smt.IntLit(0), I), smt.Lt(I, n), smt.Le(smt.IntLit(0), J), smt.Lt(J, n)))
	{
		// the content less is applied to is a rearrangement of the input
		kq := smt.T{S: "k?g", Sort: smt.Int}
		lq := smt.T{S: "l?g", Sort: smt.Int}
		sub.Assume(smt.Forall([]smt.Bound{{Name: kq.S, Sort: smt.Int}}, smt.Implies(smt.And(smt.Le(smt.IntLit(0), kq), smt.Lt(kq, n)),
			smt.Exists([]smt.Bound{{Name: lq.S, Sort: smt.Int}}, smt.And(smt.Le(smt.IntLit(0), lq), smt.Lt(lq, n), smt.Eq(smt.App(smt.V, "s_at", S, kq), smt.App(smt.V, "s_at", old, lq)))))))
	}
	base := len(sub.pc)
	saved := e.litSig
	e.litSig = sig
	outs, err := e.execBlock(sub.Clone(), lit.Body.List)
	e.litSig = saved
	if err != nil {
		return err
	}
	var disj []smt.T
	var extra []smt.T
	seenFact := map[string]bool{}
	for _, o := range outs {
		if o.kind != oReturn {
			continue
		}
		v, ok := o.st.named["$res0"]
		if !ok {
			return e.errf(call.Pos(), "sort.Slice: less function without result")
		}
		var guards []smt.T
		for _, c := range o.st.pc[base:] {
			if o.st.facts[c.S] {
				if !seenFact[c.S] {
					seenFact[c.S] = true
					extra = append(extra, c)
				}
				continue
			}
			guards = append(guards, c)
		}
		disj = append(disj, smt.And(append(guards, v.T)...))
	}
	lessV := Val{smt.Or(disj...), types.Typ[types.Bool]}
	inst := func(s, i, j smt.T) smt.T {
		r := strings.NewReplacer(S.S, s.S, I.S, i.S, J.S, j.S)
		return smt.T{S: r.Replace(lessV.T.S), Sort: smt.Bool}
	}
	instFacts := func(s, i, j smt.T) smt.T {
		r := strings.NewReplacer(S.S, s.S, I.S, i.S, J.S, j.S)
		var fs []smt.T
		for _, f := range extra {
			fs = append(fs, smt.T{S: r.Replace(f.S), Sort: smt.Bool})
		}
		return smt.And(fs...)
	}
	// strict weak order: irreflexive, transitive, incomparability transitive
	K := e.Fresh("sortK", smt.Int)
	chk := sub.Clone()
	chk.Assume(smt.And(smt.Le(smt.IntLit(0), K), smt.Lt(K, n)))
	chk.Assume(instFacts(S, I, J))
	chk.Assume(instFacts(S, I, I))
	chk.Assume(instFacts(S, J, I))
	chk.Assume(instFacts(S, J, K))
	chk.Assume(instFacts(S, I, K))
	chk.Assume(instFacts(S, K, J))
	chk.Assume(instFacts(S, K, I))
	e.oblige(chk, "pre", "sort.Slice:less-irreflexive", call.Pos(), smt.Not(inst(S, I, I)))
	e.oblige(chk, "pre", "sort.Slice:less-transitive", call.Pos(), smt.Implies(smt.And(inst(S, I, J), inst(S, J, K)), inst(S, I, K)))
	e.oblige(chk, "pre", "sort.Slice:incomparability-transitive", call.Pos(),
		smt.Implies(smt.And(smt.Not(inst(S, I, J)), smt.Not(inst(S, J, I)), smt.Not(inst(S, J, K)), smt.Not(inst(S, K, J))), smt.And(smt.Not(inst(S, I, K)), smt.Not(inst(S, K, I)))))
	// effect
	nw := e.Fresh("sorted", smt.V)
	st.vars[xv] = nw
	st.Assume(smt.Eq(smt.App(smt.Int, "s_len", nw), n))
	st.Assume(smt.Eq(smt.Eq(nw, NilV), smt.Eq(old, NilV)))
	e.Decls.Fun("perm", []smt.Sort{smt.V, smt.V}, smt.Bool)
	st.Assume(smt.App(smt.Bool, "perm", nw, old))
	a, b := smt.T{S: "a?s", Sort: smt.Int}, smt.T{S: "b?s", Sort: smt.Int}
	st.Assume(smt.Forall([]smt.Bound{{Name: a.S, Sort: smt.Int}, {Name: b.S, Sort: smt.Int}},
		smt.Implies(smt.And(smt.Le(smt.IntLit(0), a), smt.Lt(a, b), smt.Lt(b, n)), smt.And(instFacts(nw, b, a), smt.Not(inst(nw, b, a))))))
	// a rearrangement of pairwise distinct elements is pairwise distinct
	e.DeclDistinct()
	st.Assume(smt.Implies(smt.App(smt.Bool, "distinct_elems", old), smt.App(smt.Bool, "distinct_elems", nw)))
	// every element of the result is an element of the input and vice versa
	kq := smt.T{S: "k?s", Sort: smt.Int}
	lq := smt.T{S: "l?s", Sort: smt.Int}
	st.Assume(smt.Forall([]smt.Bound{{Name: kq.S, Sort: smt.Int}}, smt.Implies(smt.And(smt.Le(smt.IntLit(0), kq), smt.Lt(kq, n)),
		smt.Exists([]smt.Bound{{Name: lq.S, Sort: smt.Int}}, smt.And(smt.Le(smt.IntLit(0), lq), smt.Lt(lq, n), smt.Eq(smt.App(smt.V, "s_at", nw, kq), smt.App(smt.V, "s_at", old, lq)))))))
	st.Assume(smt.Forall([]smt.Bound{{Name: kq.S, Sort: smt.Int}}, smt.Implies(smt.And(smt.Le(smt.IntLit(0), kq), smt.Lt(kq, n)),
		smt.Exists([]smt.Bound{{Name: lq.S, Sort: smt.Int}}, smt.And(smt.Le(smt.IntLit(0), lq), smt.Lt(lq, n), smt.Eq(smt.App(smt.V, "s_at", old, kq), smt.App(smt.V, "s_at", nw, lq)))))))
	return nil
}

// purePkgs: standard-library packages whose functions and methods neither
// write memory the engine models nor have effects the properties speak about.
// A call into one of them without an explicit contract is an uninterpreted
// pure function of its arguments (recorded in UncontractedPure).
var purePkgs = map[string]bool{"strings": true, "strconv": true, "unicode": true, "path/filepath": true, "path": true, "go/types": true, "math": true, "go/token": true, "unicode/utf8": true}

func (e *Engine) defaultPure(fn *types.Func, key string) *contract.Func {
	// (error).Error of the universe: a pure function of the error value
	universeError := fn.Pkg() == nil && fn.Name() == "Error"
	if !universeError && (fn.Pkg() == nil || !purePkgs[fn.Pkg().Path()]) {
		return nil
	}
	if c, ok := e.autoPure[key]; ok {
		return c
	}
	sig := fn.Type().(*types.Signature)
	c := &contract.Func{Key: key, LoopInv: map[int][]contract.Clause{}, Attrs: map[string][]string{"pure": {"true"}, "auto": {"true"}}, Extern: true}
	if sig.Recv() != nil {
		c.Recv = "recv"
	}
	for i := 0; i < sig.Params().Len(); i++ {
		c.Params = append(c.Params, fmt.Sprintf("p%d", i))
	}
	for i := 0; i < sig.Results().Len(); i++ {
		c.Results = append(c.Results, fmt.Sprintf("r%d", i))
	}
	if e.autoPure == nil {
		e.autoPure = map[string]*contract.Func{}
	}
	e.autoPure[key] = c
	e.UncontractedPure = append(e.UncontractedPure, key)
	return c
}

var castpRe = regexp.MustCompile(`^castp\((\w+),\s*(\w+)\)$`)

// noteCallFields records which field indices a callee's assigns clause names.
func (e *Engine) noteCallFields(call *ast.CallExpr) {
	fn := e.staticCallee(call)
	if fn == nil {
		return
	}
	con := e.Contracts.Funcs[e.methodKeyAt(call, fn)]
	if con == nil {
		return
	}
	sig := fn.Type().(*types.Signature)
	for _, a := range con.Assigns {
		if !strings.ContainsAny(a, ".*[") {
			continue
		}
		if strings.HasPrefix(a, "any ") {
			if fid, err := e.anyFieldID(strings.TrimSpace(a[4:])); err == nil {
				e.noteFieldWrite(fid, nil)
			} else {
				e.fieldWAll = true
			}
			continue
		}
		i := strings.LastIndex(a, ".")
		if i < 0 || strings.ContainsAny(a, "*[") {
			e.fieldWAll = true
			continue
		}
		base, field := a[:i], a[i+1:]
		var t types.Type
		if m := castpRe.FindStringSubmatch(base); m != nil && e.cur != nil && e.cur.Pkg != nil {
			// castp(<param>, T).f: the object is the argument, viewed as a *T
			if tn, ok := e.cur.Pkg.Scope().Lookup(m[2]).(*types.TypeName); ok {
				for k, pn := range con.Params {
					if pn == m[1] && k < sig.Params().Len() {
						base, t = m[1], tn.Type()
					}
				}
			}
		}
		if sig.Recv() != nil && base == con.Recv {
			t = sig.Recv().Type()
		}
		for k, pn := range con.Params {
			if pn == base && k < sig.Params().Len() && t == nil {
				t = sig.Params().At(k).Type()
			}
		}
		if t == nil {
			e.fieldWAll = true
			continue
		}
		if p, ok := t.Underlying().(*types.Pointer); ok {
			t = p.Elem()
		}
		st, ok := t.Underlying().(*types.Struct)
		if !ok {
			e.fieldWAll = true
			continue
		}
		idx, _, ok := FieldIndex(st, field)
		if !ok {
			e.fieldWAll = true
			continue
		}
		// the object written is the call's receiver / argument
		var bx ast.Expr
		if sig.Recv() != nil && base == con.Recv {
			if se, ok := ast.Unparen(call.Fun).(*ast.SelectorExpr); ok {
				bx = se.X
			}
		}
		for k, pn := range con.Params {
			if pn == base && k < len(call.Args) {
				bx = call.Args[k]
			}
		}
		e.noteFieldWrite(e.FID(t, idx), bx)
	}
}

// assertAfterCall: "assert-after-call <callee key>: P" obligations right after a call.
func (e *Engine) assertAfterCall(st *State, key string, call *ast.CallExpr, outs []Val) error {
	if e.curCon == nil {
		return nil
	}
	// "ghost-after-call <callee key>: name = expr" ($ret<k>: the call's results)
	for _, a := range e.curCon.Attrs["ghost-after-call"] {
		j := strings.Index(a, ":")
		if j < 0 || strings.TrimSpace(a[:j]) != key {
			continue
		}
		bind := map[string]Val{}
		for k, o := range outs {
			bind[fmt.Sprintf("$ret%d", k)] = o
		}
		if err := e.ghostUpdate(st, strings.TrimSpace(a[j+1:]), call.End(), bind); err != nil {
			return fmt.Errorf("%s: ghost-after-call of %s: %v", e.curCon.File, e.curCon.Key, err)
		}
	}
	for i, a := range e.curCon.Attrs["assert-after-call"] {
		j := strings.Index(a, ":")
		if j < 0 || strings.TrimSpace(a[:j]) != key {
			continue
		}
		text := strings.TrimSpace(a[j+1:])
		label := fmt.Sprintf("#%d", i+1)
		if strings.HasPrefix(text, "[") {
			if k := strings.Index(text, "]"); k > 0 {
				label, text = ":"+text[1:k], strings.TrimSpace(text[k+1:])
			}
		}
		x, err := spec.Parse(text)
		if err != nil {
			return fmt.Errorf("%s: assert-after-call of %s: %v", e.curCon.File, e.curCon.Key, err)
		}
		env := e.newEnv(st, call.End())
		for k, o := range outs {
			env.Bound[fmt.Sprintf("$ret%d", k)] = o
		}
		v, err := e.evalSpec(env, x)
		if err != nil {
			return fmt.Errorf("%s: assert-after-call of %s: %v", e.curCon.File, e.curCon.Key, err)
		}
		e.oblige(st, "assert", fmt.Sprintf("after-call(%s)%s", key, label), call.Pos(), v.T)
	}
	return nil
}

// anyFieldID resolves "pkg.Type.field" (e.g. ast.CallExpr.Fun) to its field identifier.
func (e *Engine) anyFieldID(s string) (int, error) {
	i := strings.LastIndex(s, ".")
	if i < 0 {
		return 0, fmt.Errorf("need pkg.Type.field")
	}
	tn := s[:i]
	if e.cur != nil && e.cur.Pkg != nil {
		tn = strings.TrimPrefix(tn, e.cur.Pkg.Name()+".")
	}
	t, err := e.ResolveType(tn)
	if err != nil {
		return 0, err
	}
	st, ok := t.Underlying().(*types.Struct)
	if !ok {
		return 0, fmt.Errorf("%s is not a struct type", s[:i])
	}
	idx, _, ok := FieldIndex(st, s[i+1:])
	if !ok {
		return 0, fmt.Errorf("%s has no field %s", s[:i], s[i+1:])
	}
	return e.FID(t, idx), nil
}

// ApplyTerm is applyTerm for client spec functions.
func (e *Engine) ApplyTerm(fv Val, args []Val, sig *types.Signature, i int) Val {
	return e.applyTerm(fv, args, sig, i)
}

// mentionsLocalGhost: the clause text names one of the contract's "local-ghost" history variables.
func mentionsLocalGhost(con *contract.Func, text string) bool {
	for _, a := range con.Attrs["local-ghost"] {
		name := strings.TrimSpace(a)
		if name != "" && regexp.MustCompile(`(^|[^\w$.])`+regexp.QuoteMeta(name)+`($|[^\w(])`).MatchString(text) {
			return true
		}
	}
	return false
}
