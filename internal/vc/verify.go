package vc

import (
	"fmt"
	"go/ast"
	"go/types"
	"regexp"
	"strings"

	"gvc/internal/contract"
	"gvc/internal/smt"
	"gvc/internal/spec"
)

// GhostVar declares a ghost state variable (e.g. the file system).
type GhostVar struct {
	Name string
	Type string // Go type expression, resolved in the package under verification
}

// VerifyOpts tune one function verification.
type VerifyOpts struct {
	Ghost []GhostVar
	// DropAxioms: labelled package axioms ([name]) that must not be assumed
	// (a property that quantifies over inputs on which the axiom is false)
	DropAxioms []string
}

var litKeyRe = regexp.MustCompile(`^(.*)_lit([0-9]+)$`)

// VerifyFunc generates the obligations of one function against its contract.
func (e *Engine) VerifyFunc(key string, opts VerifyOpts) error {
	// "<function>_lit<k>": the k-th function literal of the function, verified as a
	// function of its own whose free variables (the enclosing function's receiver,
	// parameters) are arbitrary values
	litOrd := 0
	baseKey := key
	if m := litKeyRe.FindStringSubmatch(key); m != nil {
		baseKey = m[1]
		fmt.Sscan(m[2], &litOrd)
	}
	fn := e.Funcs[baseKey]
	if fn == nil {
		return fmt.Errorf("no function %s in the loaded packages", baseKey)
	}
	con := e.Contracts.Funcs[key]
	if con == nil {
		return fmt.Errorf("function %s has no contract", key)
	}
	if fn.Decl.Body == nil {
		return fmt.Errorf("function %s has no body", baseKey)
	}
	body := fn.Decl.Body
	var lit *ast.FuncLit
	if litOrd > 0 {
		n := 0
		ast.Inspect(fn.Decl.Body, func(x ast.Node) bool {
			if l, ok := x.(*ast.FuncLit); ok {
				n++
				if n == litOrd && lit == nil {
					lit = l
				}
			}
			return true
		})
		if lit == nil {
			return fmt.Errorf("function %s has no function literal number %d", baseKey, litOrd)
		}
		body = lit.Body
	}
	if lit != nil {
		// obligations of the literal carry its own key
		cp := *fn
		cp.Key = key
		fn = &cp
	}
	e.cur, e.curCon = fn, con
	defer func() { e.cur, e.curCon = nil, nil }()
	// ordinals
	e.loopOrd = map[ast.Stmt]int{}
	e.retOrd = map[*ast.ReturnStmt]int{}
	nl, nr := 0, 0
	// loops are numbered in source order, including those inside function
	// literals; returns of function literals are not returns of the function
	var walk func(n ast.Node, inLit bool)
	walk = func(root ast.Node, inLit bool) {
		ast.Inspect(root, func(n ast.Node) bool {
			switch s := n.(type) {
			case *ast.ForStmt:
				nl++
				e.loopOrd[s] = nl
			case *ast.RangeStmt:
				nl++
				e.loopOrd[s] = nl
			case *ast.ReturnStmt:
				if !inLit {
					nr++
					e.retOrd[s] = nr
				}
			case *ast.FuncLit:
				if n != root {
					walk(s.Body, true)
					return false
				}
			}
			return true
		})
	}
	walk(body, false)
	for k := range con.LoopInv {
		if k < 1 || k > nl {
			return fmt.Errorf("%s:%d: contract of %s names loop %d but the function has %d loops", con.File, con.Line, key, k, nl)
		}
	}
	sig := fn.Obj.Type().(*types.Signature)
	outerSig := sig
	if lit != nil {
		ls, ok := fn.Info.TypeOf(lit).(*types.Signature)
		if !ok {
			return fmt.Errorf("function literal %d of %s has no signature", litOrd, baseKey)
		}
		sig = ls
		e.litSig = ls
		defer func() { e.litSig = nil }()
	}
	// check the contract header against the real signature
	if sig.Params().Len() != len(con.Params) {
		return fmt.Errorf("%s:%d: contract header of %s has %d parameters, function has %d", con.File, con.Line, key, len(con.Params), sig.Params().Len())
	}
	for i := 0; i < sig.Params().Len(); i++ {
		if n := sig.Params().At(i).Name(); n != con.Params[i] && n != "" && n != "_" {
			return fmt.Errorf("%s:%d: contract header of %s: parameter %d is %q in the code, %q in the contract", con.File, con.Line, key, i, n, con.Params[i])
		}
	}
	if sig.Results().Len() != len(con.Results) {
		return fmt.Errorf("%s:%d: contract header of %s has %d results, function has %d", con.File, con.Line, key, len(con.Results), sig.Results().Len())
	}
	st := &State{vars: map[types.Object]smt.T{}, named: map[string]Val{}}
	st.heap = e.Decls.Const("heap0!"+smt.Ident(key), smt.Heap)
	bindVar := func(v *types.Var, hint string) {
		t := e.Decls.Const("in!"+smt.Ident(key)+"!"+smt.Ident(hint), SortOf(v.Type()))
		st.vars[v] = t
		e.typeFacts(st, Val{t, v.Type()})
	}
	if lit != nil {
		// the literal's free variables: the enclosing function's receiver and parameters
		if r := outerSig.Recv(); r != nil {
			bindVar(r, r.Name())
			if _, ok := r.Type().Underlying().(*types.Pointer); ok {
				st.Assume(smt.Neq(st.vars[r], NilV))
			}
		}
		for i := 0; i < outerSig.Params().Len(); i++ {
			p := outerSig.Params().At(i)
			bindVar(p, fmt.Sprintf("cap_%s%d", p.Name(), i))
		}
	}
	if r := sig.Recv(); r != nil {
		bindVar(r, r.Name())
		if _, ok := r.Type().Underlying().(*types.Pointer); ok {
			st.Assume(smt.Neq(st.vars[r], NilV)) // methods are called on non-nil receivers (checked at call sites that construct them)
		}
	}
	for i := 0; i < sig.Params().Len(); i++ {
		p := sig.Params().At(i)
		bindVar(p, fmt.Sprintf("%s%d", p.Name(), i))
	}
	for i := 0; i < sig.Results().Len(); i++ {
		r := sig.Results().At(i)
		if r.Name() != "" {
			st.vars[r] = e.ZeroOf(r.Type())
		}
	}
	for _, g := range opts.Ghost {
		t, err := e.ResolveType(g.Type)
		if err != nil {
			return fmt.Errorf("ghost %s: %v", g.Name, err)
		}
		st.named[g.Name] = Val{e.Decls.Const("ghost0!"+smt.Ident(key)+"!"+g.Name, SortOf(t)), t}
	}
	// "local-ghost: name": a boolean history variable of this function alone, false at entry
	e.localGhost = map[string]bool{}
	if con != nil {
		for _, a := range con.Attrs["local-ghost"] {
			name := strings.TrimSpace(a)
			if _, dup := st.named[name]; dup || name == "" {
				return fmt.Errorf("%s: local-ghost %q of %s: empty or already a ghost state variable", con.File, name, key)
			}
			st.named[name] = Val{smt.False, types.Typ[types.Bool]}
			e.localGhost[name] = true
		}
	}
	if e.TraceOn {
		st.named["$trace"] = Val{e.Decls.Const("trace0!"+smt.Ident(key), smt.V), nil}
		st.Assume(smt.Eq(smt.App(smt.Int, "s_len", st.named["$trace"].T), smt.IntLit(0)))
	}
	e.entry = st.Clone()
	pos := body.Lbrace + 1
	// package axioms (trusted lemmas, listed in evidence)
	for _, ax := range e.Contracts.Axioms {
		if ax.Pkg != keyPkg(key) {
			continue
		}
		dropped := false
		for _, d := range opts.DropAxioms {
			if d == ax.Name && d != "" {
				dropped = true
			}
		}
		if dropped {
			continue
		}
		env := e.newEnv(st, pos)
		v, err := e.evalSpec(env, ax.Expr)
		if err != nil {
			// an axiom over types the function's file does not import cannot be
			// stated there: it is not assumed (dropping an assumption is sound)
			if strings.Contains(err.Error(), "quantifier type") {
				continue
			}
			return fmt.Errorf("%s:%d: %v", ax.File, ax.Line, err)
		}
		st.Assume(v.T)
	}
	for _, r := range con.Requires {
		env := e.newEnv(st, pos)
		v, err := e.evalSpec(env, r.Expr)
		if err != nil {
			return fmt.Errorf("%s:%d: %v", r.File, r.Line, err)
		}
		st.Assume(v.T)
	}
	// data-structure invariant of the receiver: assumed on entry, proved on exit
	var recvInv []contract.Clause
	if r := sig.Recv(); r != nil && len(con.Attrs["noinv"]) == 0 {
		recvInv = e.Contracts.Invs[typeInvKey(r.Type())]
		for _, iv := range recvInv {
			env := e.newEnv(st, pos)
			env.Bound["self"] = Val{st.vars[r], r.Type()}
			v, err := e.evalSpec(env, iv.Expr)
			if err != nil {
				return fmt.Errorf("%s:%d: %v", iv.File, iv.Line, err)
			}
			st.Assume(v.T)
		}
	}
	e.entry = st.Clone()
	e.Probe(st, "entry")
	outs, err := e.execBlock(st, body.List)
	if err != nil {
		return err
	}
	endPos := body.Rbrace
	for _, o := range outs {
		if o.kind != oReturn && o.kind != oFall {
			return fmt.Errorf("%s: break/continue escaped the function body", key)
		}
		fst := o.st
		retName := "end"
		if o.kind == oReturn {
			if v, ok := fst.named["$retord"]; ok {
				retName = "return" + v.T.S
			}
		} else if sig.Results().Len() > 0 {
			continue // unreachable fall-off (Go requires a terminating statement); path condition is false
		}
		env := e.newEnv(fst, endPos)
		for i, rn := range con.Results {
			if v, ok := fst.named[fmt.Sprintf("$res%d", i)]; ok {
				env.Bound[rn] = v
			}
		}
		// parameters in postconditions denote their entry values
		for i := 0; i < sig.Params().Len(); i++ {
			p := sig.Params().At(i)
			env.Bound[con.Params[i]] = Val{e.entry.vars[p], p.Type()}
		}
		if r := sig.Recv(); r != nil && con.Recv != "" {
			env.Bound[con.Recv] = Val{e.entry.vars[r], r.Type()}
		}
		// ghost updates at return: "ghost-on-return: name = expr"
		for _, gu := range con.Attrs["ghost-on-return"] {
			j := strings.Index(gu, "=")
			if j < 0 {
				return fmt.Errorf("%s: ghost-on-return of %s needs name = expr", con.File, key)
			}
			name := strings.TrimSpace(gu[:j])
			x, err := spec.Parse(strings.TrimSpace(gu[j+1:]))
			if err != nil {
				return fmt.Errorf("%s: ghost-on-return of %s: %v", con.File, key, err)
			}
			old, ok := fst.named[name]
			if !ok {
				return fmt.Errorf("%s: ghost-on-return of %s: %s is not a ghost state variable", con.File, key, name)
			}
			v, err := e.evalSpec(env, x)
			if err != nil {
				return fmt.Errorf("%s: ghost-on-return of %s: %v", con.File, key, err)
			}
			fst.named[name] = Val{v.T, old.Ty}
		}
		for i, en := range con.Ensures {
			v, err := e.evalSpec(env, en.Expr)
			if err != nil {
				return fmt.Errorf("%s:%d: %v", en.File, en.Line, err)
			}
			name := en.Name
			if name == "" {
				name = fmt.Sprintf("ensures#%d", i+1)
			}
			e.oblige(fst, "post", name+"@"+retName, endPos, v.T)
		}
		for i, iv := range recvInv {
			ienv := e.newEnv(fst, endPos)
			r := sig.Recv()
			ienv.Bound["self"] = Val{e.entry.vars[r], r.Type()}
			v, err := e.evalSpec(ienv, iv.Expr)
			if err != nil {
				return fmt.Errorf("%s:%d: %v", iv.File, iv.Line, err)
			}
			name := iv.Name
			if name == "" {
				name = fmt.Sprintf("#%d", i+1)
			}
			e.oblige(fst, "inv-type", name+"@"+retName, endPos, v.T)
		}
		if con.Assigned {
			if err := e.checkFrame(fst, con, env, retName); err != nil {
				return err
			}
		}
	}
	return nil
}

// checkFrame: everything outside the assigns clause is unchanged.
func (e *Engine) checkFrame(st *State, con *contract.Func, env *SpecEnv, retName string) error {
	// ghost state outside the assigns clause is unchanged (a callee's frame may not be wider than its caller's)
	for _, name := range smt.SortedKeys(e.entry.named) {
		if strings.HasPrefix(name, "$") || e.localGhost[name] {
			continue
		}
		listed := false
		for _, a := range con.Assigns {
			if a == name {
				listed = true
			}
		}
		now, ok := st.named[name]
		was := e.entry.named[name]
		if listed || !ok || now.T.S == was.T.S || now.T.Sort != was.T.Sort {
			continue
		}
		e.oblige(st, "frame", "ghost("+name+")@"+retName, e.cur.Decl.Body.Rbrace, smt.Eq(now.T, was.T))
	}
	if st.heap.S == e.entry.heap.S {
		return nil
	}
	type target struct {
		obj    smt.T
		fields map[int]bool
	}
	var targets []*target
	find := func(obj smt.T) *target {
		for _, t := range targets {
			if t.obj.S == obj.S {
				return t
			}
		}
		t := &target{obj: obj, fields: map[int]bool{}}
		targets = append(targets, t)
		return t
	}
	var anyFids []int
	for _, a := range con.Assigns {
		if strings.HasPrefix(a, "any ") {
			fid, err := e.anyFieldID(strings.TrimSpace(a[4:]))
			if err != nil {
				return fmt.Errorf("assigns %q: %v", a, err)
			}
			anyFids = append(anyFids, fid)
			continue
		}
		x, err := spec.Parse(a)
		if err != nil {
			return err
		}
		oenv := env.with(e.entry)
		switch x := x.(type) {
		case *spec.Ident:
			continue
		case *spec.Select:
			base, err := e.evalSpec(oenv, x.X)
			if err != nil {
				return err
			}
			pt, ok := base.Ty.Underlying().(*types.Pointer)
			if !ok {
				return fmt.Errorf("assigns %q: base is not a pointer", a)
			}
			stt := pt.Elem().Underlying().(*types.Struct)
			idx, _, ok := FieldIndex(stt, x.Name)
			if !ok {
				return fmt.Errorf("assigns %q: no such field", a)
			}
			idx = e.FID(pt.Elem(), idx)
			if t := find(base.T); t.fields != nil {
				t.fields[idx] = true
			}
		case *spec.Unary:
			base, err := e.evalSpec(oenv, x.X)
			if err != nil {
				return err
			}
			find(base.T).fields = nil
		}
	}
	// objects allocated by this function are not part of the caller's frame:
	// the frame is stated for pointers that were allocated at entry. Without an
	// allocation model the obligation quantifies over all pointers p; fresh
	// pointers are excluded by the client through AllocatedAtEntry.
	p := e.Fresh("frame_p", smt.V)
	var conds []smt.T
	for _, t := range targets {
		if t.fields == nil {
			conds = append(conds, smt.Neq(p, t.obj))
		}
	}
	pre := st.Clone()
	pre.Assume(smt.And(conds...))
	for _, q := range st.fresh {
		pre.Assume(smt.Neq(p, q))
	}
	if FrameExcludeHook != nil {
		FrameExcludeHook(e, pre, p)
	}
	j := e.Fresh("frame_j", smt.Int)
	var fconds []smt.T
	for _, f := range anyFids {
		fconds = append(fconds, smt.Neq(j, smt.IntLit(f)))
	}
	for _, t := range targets {
		if t.fields != nil {
			var ne []smt.T
			for _, idx := range sortedInts(t.fields) {
				ne = append(ne, smt.Neq(j, smt.IntLit(idx)))
			}
			fconds = append(fconds, smt.Implies(smt.Eq(p, t.obj), smt.And(ne...)))
		}
	}
	pre.Assume(smt.And(fconds...))
	isTarget := smt.False
	for _, t := range targets {
		if t.fields != nil {
			isTarget = smt.Or(isTarget, smt.Eq(p, t.obj))
		}
	}
	o1 := smt.App(smt.V, "select", st.heap, p)
	o0 := smt.App(smt.V, "select", e.entry.heap, p)
	goal := smt.Ite(isTarget, smt.Eq(smt.App(smt.V, "f_get", o1, j), smt.App(smt.V, "f_get", o0, j)), smt.Eq(o1, o0))
	if len(anyFids) > 0 {
		goal = smt.Eq(smt.App(smt.V, "f_get", o1, j), smt.App(smt.V, "f_get", o0, j))
	}
	e.oblige(pre, "frame", "assigns@"+retName, e.cur.Decl.Body.Rbrace, goal)
	return nil
}

// FrameExcludeHook lets a client exclude freshly allocated pointers from the frame obligation.
var FrameExcludeHook func(e *Engine, st *State, p smt.T)

// typeInvKey: "pkg.Type" of a (pointer to a) named type.
func typeInvKey(t types.Type) string {
	if p, ok := t.(*types.Pointer); ok {
		t = p.Elem()
	}
	if n, ok := t.(*types.Named); ok && n.Obj().Pkg() != nil {
		return n.Obj().Pkg().Name() + "." + n.Obj().Name()
	}
	return ""
}

// VerifyFuncLit checks the body of a function literal against closure
// postconditions: the literal is executed once for arbitrary arguments in the
// state in which it is created (captured variables keep their current values;
// the closures under contract do not write them), and every return must
// establish the clauses. results names the literal's results in the clauses.
func (e *Engine) VerifyFuncLit(st *State, x *ast.FuncLit, results []string, ensures []contract.Clause) error {
	return e.VerifyFuncLitInv(st, x, results, ensures, nil)
}

// VerifyFuncLitInv: as VerifyFuncLit, for closures with captured mutable state.
// The invariants are obliged where the literal is created; the body is then
// verified for an arbitrary later call: the captured variables the body
// assigns are arbitrary values satisfying the invariants, the effect trace of
// the call starts empty, the invariants are obliged again at every return, and
// old() in the clauses refers to the state at the start of the call.
func (e *Engine) VerifyFuncLitInv(st *State, x *ast.FuncLit, results []string, ensures []contract.Clause, invs []contract.Clause) error {
	sig, ok := e.info().TypeOf(x).(*types.Signature)
	if !ok {
		return e.errf(x.Pos(), "function literal without signature")
	}
	sub := st.Clone()
	if len(invs) > 0 {
		for i, iv := range invs {
			env := e.newEnv(st, x.Body.Lbrace)
			v, err := e.evalSpec(env, iv.Expr)
			if err != nil {
				return fmt.Errorf("%s:%d: %v", iv.File, iv.Line, err)
			}
			name := iv.Name
			if name == "" {
				name = fmt.Sprintf("#%d", i+1)
			}
			e.oblige(st, "inv-init", "closure-inv:"+name, x.Pos(), v.T)
		}
		savedG, savedW := e.ghostMod, e.wholeAssigned
		e.ghostMod, e.wholeAssigned = map[string]bool{}, map[*types.Var]bool{}
		mod, heapW := e.assignedIn(x.Body)
		// only variables declared outside the literal are captured state
		for v := range mod {
			if v.Pos() >= x.Pos() && v.Pos() < x.End() {
				delete(mod, v)
			}
		}
		// element-wise updates of captured maps and slices may change their size
		for v := range mod {
			e.wholeAssigned[v] = true
		}
		e.havoc(sub, mod, heapW)
		e.ghostMod, e.wholeAssigned = savedG, savedW
		if _, ok := sub.named["$trace"]; ok {
			tr := e.Fresh("trace", smt.V)
			sub.named["$trace"] = Val{tr, nil}
			sub.Assume(smt.Eq(smt.App(smt.Int, "s_len", tr), smt.IntLit(0)))
		}
		for _, iv := range invs {
			env := e.newEnv(sub, x.Body.Lbrace)
			v, err := e.evalSpec(env, iv.Expr)
			if err != nil {
				return fmt.Errorf("%s:%d: %v", iv.File, iv.Line, err)
			}
			sub.Assume(v.T)
		}
	}
	var argVals []Val
	for i := 0; i < sig.Params().Len(); i++ {
		p := sig.Params().At(i)
		sub.vars[p] = e.Fresh("arg!"+p.Name(), SortOf(p.Type()))
		e.typeFacts(sub, Val{sub.vars[p], p.Type()})
		argVals = append(argVals, Val{sub.vars[p], p.Type()})
	}
	// $arg<depth>_<i>: the i-th argument of the literal at nesting depth <depth> (0 = outermost)
	e.litArgs = append(e.litArgs, argVals)
	defer func() { e.litArgs = e.litArgs[:len(e.litArgs)-1] }()
	for i := 0; i < sig.Results().Len(); i++ {
		r := sig.Results().At(i)
		if r.Name() != "" {
			sub.vars[r] = e.ZeroOf(r.Type())
		}
	}
	saved := e.litSig
	e.litSig = sig
	callEntry := sub.Clone()
	outs, err := e.execBlock(sub, x.Body.List)
	e.litSig = saved
	if err != nil {
		return err
	}
	for _, o := range outs {
		if o.kind != oReturn && o.kind != oFall {
			return e.errf(x.Pos(), "break/continue escaped a function literal")
		}
		if o.kind == oFall && sig.Results().Len() > 0 {
			continue
		}
		env := e.newEnv(o.st, x.Body.Rbrace)
		if len(invs) > 0 {
			env.Old = callEntry
			for i, iv := range invs {
				v, err := e.evalSpec(env, iv.Expr)
				if err != nil {
					return fmt.Errorf("%s:%d: %v", iv.File, iv.Line, err)
				}
				name := iv.Name
				if name == "" {
					name = fmt.Sprintf("#%d", i+1)
				}
				e.oblige(o.st, "inv-step", "closure-inv:"+name, x.Body.Rbrace, v.T)
			}
		}
		for d, as := range e.litArgs {
			for i, a := range as {
				env.Bound[fmt.Sprintf("$arg%d_%d", d, i)] = a
			}
		}
		for i, rn := range results {
			if v, ok := o.st.named[fmt.Sprintf("$res%d", i)]; ok {
				env.Bound[rn] = v
			}
		}
		for i, en := range ensures {
			v, err := e.evalSpec(env, en.Expr)
			if err != nil {
				return fmt.Errorf("%s:%d: %v", en.File, en.Line, err)
			}
			name := en.Name
			if name == "" {
				name = fmt.Sprintf("closure-ensures#%d", i+1)
			}
			e.oblige(o.st, "post", "closure:"+name, x.Body.Rbrace, v.T)
		}
	}
	return nil
}
