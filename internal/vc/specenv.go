package vc

import (
	"fmt"
	"go/ast"
	"go/token"
	"go/types"
	"sort"
	"strconv"
	"strings"

	"gvc/internal/smt"
	"gvc/internal/spec"
)

// SpecEnv is the environment in which a contract expression is evaluated.
type SpecEnv struct {
	E       *Engine
	St      *State
	Old     *State
	Bound   map[string]Val
	Pos     token.Pos // scope position in the function under verification
	Callee  bool      // names come from Bound only (callee contract at a call site)
	Visited func(k smt.T) smt.T
	Pkg     string // package whose ghost abbreviations are visible
	qn      int
}

func (e *Engine) newEnv(st *State, pos token.Pos) *SpecEnv {
	pkg := ""
	if e.curCon != nil {
		pkg = keyPkg(e.curCon.Key)
	}
	env := &SpecEnv{E: e, St: st, Old: e.entry, Bound: map[string]Val{}, Pos: pos, Pkg: pkg}
	if e.curCon != nil {
		for k, v := range e.ExtraBound[e.curCon.Key] {
			env.Bound[k] = v
		}
	}
	return env
}

func (env *SpecEnv) with(st *State) *SpecEnv {
	n := *env
	n.St = st
	return &n
}

func (env *SpecEnv) lookup(name string) (Val, bool, error) {
	if v, ok := env.Bound[name]; ok {
		return v, true, nil
	}
	if v, ok := env.St.named[name]; ok {
		return v, true, nil
	}
	e := env.E
	// $out<k> names the local variable that the function's closing return statement
	// hands out as result k, whatever the code calls it
	if strings.HasPrefix(name, "$out") && !env.Callee && e.cur != nil && e.cur.Decl != nil && e.cur.Decl.Body != nil {
		k := 0
		if len(name) > 4 {
			n, err := strconv.Atoi(name[4:])
			if err != nil {
				return Val{}, false, nil
			}
			k = n
		}
		if l := e.cur.Decl.Body.List; len(l) > 0 {
			if rs, ok := l[len(l)-1].(*ast.ReturnStmt); ok && k < len(rs.Results) {
				if id, ok := ast.Unparen(rs.Results[k]).(*ast.Ident); ok {
					if o, ok := e.cur.Info.Uses[id].(*types.Var); ok {
						if t, ok := env.St.vars[o]; ok {
							return Val{t, o.Type()}, true, nil
						}
						return Val{}, false, fmt.Errorf("%s: variable %s has no value here", name, o.Name())
					}
				}
			}
		}
		return Val{}, false, fmt.Errorf("%s: the function does not end in a return statement whose result %d is a local variable", name, k)
	}
	if !env.Callee && e.cur != nil && e.cur.Pkg != nil {
		scope := e.cur.Pkg.Scope().Innermost(env.Pos)
		if scope == nil {
			scope = e.cur.Pkg.Scope()
		}
		if _, obj := scope.LookupParent(name, env.Pos); obj != nil {
			switch o := obj.(type) {
			case *types.Var:
				if t, ok := env.St.vars[o]; ok {
					return Val{t, o.Type()}, true, nil
				}
				if o.Parent() == o.Pkg().Scope() {
					return Val{e.Decls.Const("glob!"+smt.Ident(o.Pkg().Name()+"."+o.Name()), SortOf(o.Type())), o.Type()}, true, nil
				}
				return Val{}, false, fmt.Errorf("variable %s has no value here", name)
			case *types.Const:
				if v, ok := e.constVal(types.TypeAndValue{Type: o.Type(), Value: o.Val()}); ok {
					return v, true, nil
				}
			case *types.Nil:
				return Val{NilV, types.Typ[types.UntypedNil]}, true, nil
			}
		}
	}
	if name == "nil" {
		return Val{NilV, types.Typ[types.UntypedNil]}, true, nil
	}
	// ghost abbreviation
	if g, ok := e.Contracts.Ghost[env.Pkg+"."+name]; ok {
		v, err := e.evalSpec(env, g)
		return v, err == nil, err
	}
	return Val{}, false, nil
}

// EvalSpec evaluates a contract expression (for client spec functions).
func (e *Engine) EvalSpec(env *SpecEnv, x spec.Expr) (Val, error) { return e.evalSpec(env, x) }

func (e *Engine) evalSpec(env *SpecEnv, x spec.Expr) (Val, error) {
	switch x := x.(type) {
	case *spec.BoolLit:
		if x.Val {
			return Val{smt.True, types.Typ[types.Bool]}, nil
		}
		return Val{smt.False, types.Typ[types.Bool]}, nil
	case *spec.IntLit:
		return Val{smt.IntLit(x.Val), types.Typ[types.Int]}, nil
	case *spec.StrLit:
		return Val{e.StrLit(x.Val), types.Typ[types.String]}, nil
	case *spec.Ident:
		v, ok, err := env.lookup(x.Name)
		if err != nil {
			return Val{}, err
		}
		if !ok {
			return Val{}, fmt.Errorf("spec: unknown name %q", x.Name)
		}
		return v, nil
	case *spec.Old:
		return e.evalSpec(env.with(env.Old), x.X)
	case *spec.Unary:
		a, err := e.evalSpec(env, x.X)
		if err != nil {
			return Val{}, err
		}
		switch x.Op {
		case "!":
			return Val{smt.Not(a.T), a.Ty}, nil
		case "-":
			return Val{smt.Neg(a.T), a.Ty}, nil
		case "*":
			pt, ok := a.Ty.Underlying().(*types.Pointer)
			if !ok {
				return Val{}, fmt.Errorf("spec: * of non-pointer")
			}
			return Val{Unbox(smt.App(smt.V, "select", env.St.heap, a.T), SortOf(pt.Elem())), pt.Elem()}, nil
		}
		return Val{}, fmt.Errorf("spec: unary %s", x.Op)
	case *spec.Binary:
		return e.evalSpecBinary(env, x)
	case *spec.Quant:
		n := *env
		n.Bound = map[string]Val{}
		for k, v := range env.Bound {
			n.Bound[k] = v
		}
		var bs []smt.Bound
		for _, qv := range x.Vars {
			e.fresh++
			nm := fmt.Sprintf("%s?%d", smt.Ident(qv.Name), e.fresh)
			var ty types.Type
			so := smt.V
			switch qv.Type {
			case "int":
				ty, so = types.Typ[types.Int], smt.Int
			case "bool":
				ty, so = types.Typ[types.Bool], smt.Bool
			case "string":
				ty = types.Typ[types.String]
			case "val", "any":
				ty = nil
			default:
				t, err := e.ResolveType(qv.Type)
				if err != nil {
					return Val{}, fmt.Errorf("spec: quantifier type %q: %v", qv.Type, err)
				}
				ty, so = t, SortOf(t)
			}
			bs = append(bs, smt.Bound{Name: nm, Sort: so})
			n.Bound[qv.Name] = Val{smt.T{S: nm, Sort: so}, ty}
		}
		b, err := e.evalSpec(&n, x.Body)
		if err != nil {
			return Val{}, err
		}
		if x.Forall {
			return Val{smt.Forall(bs, b.T), types.Typ[types.Bool]}, nil
		}
		return Val{smt.Exists(bs, b.T), types.Typ[types.Bool]}, nil
	case *spec.Index:
		a, err := e.evalSpec(env, x.X)
		if err != nil {
			return Val{}, err
		}
		i, err := e.evalSpec(env, x.I)
		if err != nil {
			return Val{}, err
		}
		if a.Ty == nil {
			return Val{}, fmt.Errorf("spec: index of untyped value %s", x.X)
		}
		switch u := a.Ty.Underlying().(type) {
		case *types.Slice:
			return Val{Unbox(smt.App(smt.V, "s_at", a.T, i.T), SortOf(u.Elem())), u.Elem()}, nil
		case *types.Array:
			return Val{Unbox(smt.App(smt.V, "s_at", a.T, i.T), SortOf(u.Elem())), u.Elem()}, nil
		case *types.Map:
			// as in Go: the zero value for an absent key
			k := Box(i.T)
			got := Unbox(smt.App(smt.V, "m_get", a.T, k), SortOf(u.Elem()))
			return Val{smt.Ite(smt.App(smt.Bool, "m_has", a.T, k), got, e.ZeroOf(u.Elem())), u.Elem()}, nil
		case *types.Basic:
			if u.Info()&types.IsString != 0 {
				return Val{smt.App(smt.Int, "str_at", a.T, i.T), types.Typ[types.Byte]}, nil
			}
		case *types.Pointer:
			if arr, ok := u.Elem().Underlying().(*types.Array); ok {
				o := smt.App(smt.V, "select", env.St.heap, a.T)
				return Val{Unbox(smt.App(smt.V, "s_at", o, i.T), SortOf(arr.Elem())), arr.Elem()}, nil
			}
		}
		return Val{}, fmt.Errorf("spec: index of %s", a.Ty)
	case *spec.Slice:
		a, err := e.evalSpec(env, x.X)
		if err != nil {
			return Val{}, err
		}
		lo := smt.IntLit(0)
		if x.Lo != nil {
			v, err := e.evalSpec(env, x.Lo)
			if err != nil {
				return Val{}, err
			}
			lo = v.T
		}
		hi := smt.App(smt.Int, "s_len", a.T)
		if x.Hi != nil {
			v, err := e.evalSpec(env, x.Hi)
			if err != nil {
				return Val{}, err
			}
			hi = v.T
		}
		return Val{smt.App(smt.V, "s_sub", a.T, lo, hi), a.Ty}, nil
	case *spec.Select:
		a, err := e.evalSpec(env, x.X)
		if err != nil {
			return Val{}, err
		}
		if a.Ty == nil {
			return Val{}, fmt.Errorf("spec: field %s of untyped value", x.Name)
		}
		obj, index, _ := types.LookupFieldOrMethod(a.Ty, true, nil, x.Name)
		if obj == nil && e.cur != nil {
			obj, index, _ = types.LookupFieldOrMethod(a.Ty, true, e.cur.Pkg, x.Name)
		}
		if obj == nil {
			// unexported field of another package: search by name
			obj, index = lookupFieldByName(a.Ty, x.Name)
		}
		if _, ok := obj.(*types.Var); !ok {
			return Val{}, fmt.Errorf("spec: %s has no field %s", a.Ty, x.Name)
		}
		return e.specFieldPath(env, a, index)
	case *spec.Call:
		if f, ok := e.Specs[x.Fun]; ok {
			return f(e, env, x.Args)
		}
		gf, ok := e.Contracts.GhostFuns[env.Pkg+"."+x.Fun]
		if !ok {
			// a ghost function of another package's contract file (external contracts)
			var ks []string
			for k := range e.Contracts.GhostFuns {
				if strings.HasSuffix(k, "."+x.Fun) {
					ks = append(ks, k)
				}
			}
			if len(ks) == 1 {
				gf, ok = e.Contracts.GhostFuns[ks[0]], true
			}
		}
		if ok {
			if len(gf.Params) != len(x.Args) {
				return Val{}, fmt.Errorf("spec: %s takes %d arguments", x.Fun, len(gf.Params))
			}
			n := *env
			n.Bound = map[string]Val{}
			for k, v := range env.Bound {
				n.Bound[k] = v
			}
			for i, pn := range gf.Params {
				v, err := e.evalSpec(env, x.Args[i])
				if err != nil {
					return Val{}, err
				}
				n.Bound[pn] = v
			}
			return e.evalSpec(&n, gf.Body)
		}
		// application of a function-typed program variable: the same
		// uninterpreted function a dynamic call produces
		if v, ok, _ := env.lookup(x.Fun); ok && v.Ty != nil {
			if sig, isSig := v.Ty.Underlying().(*types.Signature); isSig {
				var args []Val
				for _, a := range x.Args {
					av, err := e.evalSpec(env, a)
					if err != nil {
						return Val{}, err
					}
					args = append(args, av)
				}
				if sig.Results().Len() != 1 {
					return Val{}, fmt.Errorf("spec: %s has %d results; use applyN(%s, i, args...)", x.Fun, sig.Results().Len(), x.Fun)
				}
				return e.applyTerm(v, args, sig, 0), nil
			}
		}
		if e.SpecFallback != nil {
			if v, ok, err := e.SpecFallback(e, env, x); ok || err != nil {
				return v, err
			}
		}
		return e.specCallPure(env, x)
	}
	return Val{}, fmt.Errorf("spec: unsupported expression %T", x)
}

func lookupFieldByName(t types.Type, name string) (types.Object, []int) {
	if p, ok := t.Underlying().(*types.Pointer); ok {
		t = p.Elem()
	}
	s, ok := t.Underlying().(*types.Struct)
	if !ok {
		return nil, nil
	}
	for i := 0; i < s.NumFields(); i++ {
		if s.Field(i).Name() == name {
			return s.Field(i), []int{i}
		}
	}
	return nil, nil
}

func (e *Engine) specFieldPath(env *SpecEnv, base Val, path []int) (Val, error) {
	cur := base
	for _, idx := range path {
		t := cur.Ty
		obj := cur.T
		if p, ok := t.Underlying().(*types.Pointer); ok {
			obj = smt.App(smt.V, "select", env.St.heap, cur.T)
			t = p.Elem()
		}
		s, ok := t.Underlying().(*types.Struct)
		if !ok {
			return Val{}, fmt.Errorf("spec: field access on non-struct %s", t)
		}
		ft := s.Field(idx).Type()
		cur = Val{Unbox(smt.App(smt.V, "f_get", obj, smt.IntLit(e.FID(t, idx))), SortOf(ft)), ft}
	}
	return cur, nil
}

func (e *Engine) evalSpecBinary(env *SpecEnv, x *spec.Binary) (Val, error) {
	a, err := e.evalSpec(env, x.X)
	if err != nil {
		return Val{}, err
	}
	b, err := e.evalSpec(env, x.Y)
	if err != nil {
		return Val{}, err
	}
	bt := types.Typ[types.Bool]
	switch x.Op {
	case "==>":
		return Val{smt.Implies(a.T, b.T), bt}, nil
	case "<==>":
		if a.T.Sort != smt.Bool || b.T.Sort != smt.Bool {
			return Val{}, fmt.Errorf("spec: <==> on non-booleans in %s", x)
		}
		return Val{smt.Eq(a.T, b.T), bt}, nil
	case "&&":
		return Val{smt.And(a.T, b.T), bt}, nil
	case "||":
		return Val{smt.Or(a.T, b.T), bt}, nil
	case "==", "!=":
		if a.T.Sort != b.T.Sort {
			// allow comparing a boxed and an unboxed value
			if a.T.Sort == smt.V {
				b.T = Box(b.T)
			} else if b.T.Sort == smt.V {
				a.T = Box(a.T)
			} else {
				return Val{}, fmt.Errorf("spec: %s compares different sorts", x)
			}
		}
		r := smt.Eq(a.T, b.T)
		if x.Op == "!=" {
			r = smt.Not(r)
		}
		return Val{r, bt}, nil
	case "<", "<=", ">", ">=":
		if a.T.Sort != smt.Int || b.T.Sort != smt.Int {
			return Val{}, fmt.Errorf("spec: %s on non-integers in %s", x.Op, x)
		}
		return Val{smt.App(smt.Bool, x.Op, a.T, b.T), bt}, nil
	case "+", "-", "*":
		if a.T.Sort == smt.Int && b.T.Sort == smt.Int {
			return Val{smt.App(smt.Int, x.Op, a.T, b.T), a.Ty}, nil
		}
		if x.Op == "+" && a.T.Sort == smt.V && b.T.Sort == smt.V {
			return Val{smt.App(smt.V, "str_cat", a.T, b.T), a.Ty}, nil
		}
	case "/":
		return Val{smt.App(smt.Int, "div", a.T, b.T), a.Ty}, nil
	case "%":
		return Val{smt.App(smt.Int, "mod", a.T, b.T), a.Ty}, nil
	case "in":
		if b.Ty != nil {
			if _, ok := b.Ty.Underlying().(*types.Map); !ok {
				return Val{}, fmt.Errorf("spec: 'in' needs a map on the right in %s", x)
			}
		}
		return Val{smt.App(smt.Bool, "m_has", b.T, Box(a.T)), bt}, nil
	}
	return Val{}, fmt.Errorf("spec: unsupported operator %s in %s", x.Op, x)
}

// specCallPure: a call of a repository function marked pure is the same
// uninterpreted function the program-level call produces.
func (e *Engine) specCallPure(env *SpecEnv, x *spec.Call) (Val, error) {
	pkg := ""
	if e.curCon != nil {
		pkg = keyPkg(e.curCon.Key)
	}
	key := x.Fun
	con := e.Contracts.Funcs[key]
	if con == nil {
		key = pkg + "." + x.Fun
		con = e.Contracts.Funcs[key]
	}
	if con == nil || len(con.Attrs["pure"]) == 0 {
		return Val{}, fmt.Errorf("spec: unknown function %q (not a spec function, not a pure contract)", x.Fun)
	}
	var sorts []smt.Sort
	var terms []smt.T
	for _, a := range x.Args {
		v, err := e.evalSpec(env, a)
		if err != nil {
			return Val{}, err
		}
		sorts = append(sorts, v.T.Sort)
		terms = append(terms, v.T)
	}
	if len(con.Attrs["reads-heap"]) > 0 {
		sorts = append(sorts, smt.Heap)
		terms = append(terms, env.St.heap)
	}
	var rt types.Type
	rs := smt.Bool
	if fn := e.Funcs[key]; fn != nil && fn.Obj != nil {
		sig := fn.Obj.Type().(*types.Signature)
		if sig.Results().Len() == 1 {
			rt = sig.Results().At(0).Type()
			rs = SortOf(rt)
		}
	} else if len(con.ResultTypes) == 1 {
		switch r := con.ResultTypes[0]; r {
		case "int":
			rs, rt = smt.Int, types.Typ[types.Int]
		case "bool":
			rs, rt = smt.Bool, types.Typ[types.Bool]
		default:
			rs = smt.V
			if t, err := e.ResolveType(r); err == nil {
				rt = t
				rs = SortOf(t)
			}
		}
	}
	fname := smt.Ident("fn!" + key)
	e.Decls.Fun(fname, sorts, rs)
	res := Val{smt.App(rs, fname, terms...), rt}
	// the postconditions of a pure function hold of this application too
	// (ground applications only: arguments under a quantifier are skipped)
	if len(con.Ensures) > 0 && !e.inPureEnsures && !strings.Contains(res.T.S, "?") && len(con.Results) == 1 {
		e.inPureEnsures = true
		bound := map[string]Val{con.Results[0]: res}
		off := 0
		if con.Recv != "" && len(x.Args) == len(con.Params)+1 {
			if v, err := e.evalSpec(env, x.Args[0]); err == nil {
				bound[con.Recv] = v
			}
			off = 1
		}
		ok := true
		for i, pn := range con.Params {
			if i+off >= len(x.Args) {
				ok = false
				break
			}
			v, err := e.evalSpec(env, x.Args[i+off])
			if err != nil {
				ok = false
				break
			}
			bound[pn] = v
		}
		if ok {
			cenv := &SpecEnv{E: e, St: env.St, Old: env.St, Bound: bound, Callee: true, Pkg: keyPkg(con.Key)}
			for _, en := range con.Ensures {
				if v, err := e.evalSpec(cenv, en.Expr); err == nil {
					env.St.Assume(v.T)
				}
			}
		}
		e.inPureEnsures = false
	}
	return res, nil
}

// ResolveType turns a type expression (in the package under verification) into a Go type.
func (e *Engine) ResolveType(s string) (types.Type, error) {
	if e.cur == nil || e.cur.Pkg == nil {
		return nil, fmt.Errorf("no package context")
	}
	tv, err := types.Eval(e.Fset, e.cur.Pkg, e.cur.Decl.Body.Lbrace, s)
	if err != nil {
		// a type of a package the function's file does not import (a callee's frame
		// names it): look the package up among the transitive imports
		if t := e.resolveImported(strings.TrimPrefix(s, "*")); t != nil {
			if strings.HasPrefix(s, "*") {
				return types.NewPointer(t), nil
			}
			return t, nil
		}
		// a type expression over imports of another file of the same package
		// (ghost state declared once for functions of several files)
		var keys []string
		for k, fn := range e.Funcs {
			if fn.Pkg == e.cur.Pkg && fn.Decl != nil && fn.Decl.Body != nil {
				keys = append(keys, k)
			}
		}
		sort.Strings(keys)
		for _, k := range keys {
			if tv2, err2 := types.Eval(e.Fset, e.cur.Pkg, e.Funcs[k].Decl.Body.Lbrace, s); err2 == nil {
				return tv2.Type, nil
			}
		}
		return nil, err
	}
	return tv.Type, nil
}

func (e *Engine) resolveImported(s string) types.Type {
	i := strings.Index(s, ".")
	if i <= 0 || strings.ContainsAny(s, "[]() ") {
		return nil
	}
	pkgName, name := s[:i], s[i+1:]
	seen := map[*types.Package]bool{}
	var find func(p *types.Package) types.Type
	find = func(p *types.Package) types.Type {
		if p == nil || seen[p] {
			return nil
		}
		seen[p] = true
		if p.Name() == pkgName {
			if tn, ok := p.Scope().Lookup(name).(*types.TypeName); ok {
				return tn.Type()
			}
		}
		for _, q := range p.Imports() {
			if t := find(q); t != nil {
				return t
			}
		}
		return nil
	}
	return find(e.cur.Pkg)
}

func registerBuiltinSpecs(e *Engine) {
	e.Specs["len"] = func(e *Engine, env *SpecEnv, args []spec.Expr) (Val, error) {
		if len(args) != 1 {
			return Val{}, fmt.Errorf("spec: len takes one argument")
		}
		v, err := e.evalSpec(env, args[0])
		if err != nil {
			return Val{}, err
		}
		if v.Ty == nil {
			return Val{}, fmt.Errorf("spec: len of untyped value %s", args[0])
		}
		n, err := e.lenOf(v)
		if err != nil {
			return Val{}, fmt.Errorf("spec: %v", err)
		}
		return Val{n, types.Typ[types.Int]}, nil
	}
	// final(p): the value of a (slice) parameter when the function returns
	// (callee side: the current value of the variable; caller side: the value
	// the argument variable holds after the call)
	e.Specs["final"] = func(e *Engine, env *SpecEnv, args []spec.Expr) (Val, error) {
		id, ok := args[0].(*spec.Ident)
		if !ok || len(args) != 1 {
			return Val{}, fmt.Errorf("spec: final(<parameter>)")
		}
		if v, ok := env.Bound["final!"+id.Name]; ok {
			return v, nil
		}
		if env.Callee {
			return Val{}, fmt.Errorf("spec: final(%s): the contract has no 'mutates-arg: %s'", id.Name, id.Name)
		}
		saved := env.Bound[id.Name]
		delete(env.Bound, id.Name)
		v, ok2, err := env.lookup(id.Name)
		if saved.T.S != "" {
			env.Bound[id.Name] = saved
		}
		if err != nil || !ok2 {
			return Val{}, fmt.Errorf("spec: final(%s): no such variable", id.Name)
		}
		return v, nil
	}
	// ---- ghost file system vocabulary (C07, C10) ----
	uf := func(name string, ret smt.Sort, readsHeap bool) SpecFunc {
		return func(e *Engine, env *SpecEnv, args []spec.Expr) (Val, error) {
			var ts []smt.T
			var sorts []smt.Sort
			for _, a := range args {
				v, err := e.evalSpec(env, a)
				if err != nil {
					return Val{}, err
				}
				ts = append(ts, Box(v.T))
				sorts = append(sorts, smt.V)
			}
			if readsHeap {
				ts = append(ts, env.St.heap)
				sorts = append(sorts, smt.Heap)
			}
			e.Decls.Fun(name, sorts, ret)
			var ty types.Type
			if ret == smt.V {
				ty = types.Typ[types.String]
			} else if ret == smt.Bool {
				ty = types.Typ[types.Bool]
			}
			return Val{smt.App(ret, name, ts...), ty}, nil
		}
	}
	e.Specs["pathOf"] = uf("pathOf", smt.V, false)            // the path a file handle / writer refers to
	e.Specs["Format"] = uf("Format", smt.V, true)             // go/format output for an AST in its current state
	e.Specs["WriteToBytes"] = uf("WriteToBytes", smt.V, true) // what printer.WriteTo writes, in the printer's current state
	e.Specs["isNotExist"] = uf("isNotExist", smt.Bool, false)
	e.Specs["isDerivedFile"] = uf("isDerivedFile", smt.Bool, false)
	e.Specs["joinPath"] = uf("joinPath", smt.V, false)
	e.Specs["baseName"] = uf("baseName", smt.V, false) // last element of a path (filepath.Split's second result)
	e.Specs["strJoin"] = uf("strJoin", smt.V, false)
	e.Specs["mayRename"] = uf("mayRename", smt.Bool, false)
	// overwrite(c, o, d): content c after writing d at offset o
	e.Specs["overwrite"] = func(e *Engine, env *SpecEnv, args []spec.Expr) (Val, error) {
		if len(args) != 3 {
			return Val{}, fmt.Errorf("spec: overwrite(content, offset, data)")
		}
		c, err := e.evalSpec(env, args[0])
		if err != nil {
			return Val{}, err
		}
		o, err := e.evalSpec(env, args[1])
		if err != nil {
			return Val{}, err
		}
		d, err := e.evalSpec(env, args[2])
		if err != nil {
			return Val{}, err
		}
		if !e.Decls.HasFun("overwrite") {
			e.Decls.Fun("overwrite", []smt.Sort{smt.V, smt.Int, smt.V}, smt.V)
			cc, dd := smt.T{S: "c", Sort: smt.V}, smt.T{S: "d", Sort: smt.V}
			oo := smt.T{S: "o", Sort: smt.Int}
			ow := smt.App(smt.V, "overwrite", cc, oo, dd)
			bs := []smt.Bound{{Name: "c", Sort: smt.V}, {Name: "o", Sort: smt.Int}, {Name: "d", Sort: smt.V}}
			ln := func(x smt.T) smt.T { return smt.App(smt.Int, "str_len", x) }
			// appending at the end; overwriting a content that is not longer than the data
			e.Axioms = append(e.Axioms, smt.Forall(bs, smt.Implies(smt.Eq(oo, ln(cc)), smt.Eq(ow, smt.App(smt.V, "str_cat", cc, dd))), ow))
			e.Axioms = append(e.Axioms, smt.Forall(bs, smt.Implies(smt.And(smt.Eq(oo, smt.IntLit(0)), smt.Le(ln(cc), ln(dd))), smt.Eq(ow, dd)), ow))
			// a longer old content leaves a tail
			e.Axioms = append(e.Axioms, smt.Forall(bs, smt.Implies(smt.And(smt.Eq(oo, smt.IntLit(0)), smt.Gt(ln(cc), ln(dd))), smt.And(smt.Neq(ow, dd), smt.Eq(ln(ow), ln(cc)))), ow))
			e.Axioms = append(e.Axioms, smt.Forall([]smt.Bound{{Name: "d", Sort: smt.V}}, smt.Eq(smt.App(smt.V, "str_cat", e.StrLit(""), dd), dd)))
		}
		return Val{smt.App(smt.V, "overwrite", c.T, o.T, d.T), types.Typ[types.String]}, nil
	}
	// hasFlag(flags, bit): bit (a power of two) is set in flags
	e.Specs["hasFlag"] = func(e *Engine, env *SpecEnv, args []spec.Expr) (Val, error) {
		f, err := e.evalSpec(env, args[0])
		if err != nil {
			return Val{}, err
		}
		b, err := e.evalSpec(env, args[1])
		if err != nil {
			return Val{}, err
		}
		return Val{smt.Eq(smt.App(smt.Int, "mod", smt.App(smt.Int, "div", f.T, b.T), smt.IntLit(2)), smt.IntLit(1)), types.Typ[types.Bool]}, nil
	}
	// elemOf(x, s): x is an element of slice s (membership with pattern-friendly axioms)
	e.Specs["elemOf"] = func(e *Engine, env *SpecEnv, args []spec.Expr) (Val, error) {
		if len(args) != 2 {
			return Val{}, fmt.Errorf("spec: elemOf(x, s)")
		}
		x, err := e.evalSpec(env, args[0])
		if err != nil {
			return Val{}, err
		}
		sl, err := e.evalSpec(env, args[1])
		if err != nil {
			return Val{}, err
		}
		if !e.Decls.HasFun("elemOf") {
			e.Decls.Fun("elemOf", []smt.Sort{smt.V, smt.V}, smt.Bool)
			xs, ss, ys := smt.T{S: "x", Sort: smt.V}, smt.T{S: "s", Sort: smt.V}, smt.T{S: "y", Sort: smt.V}
			k := smt.T{S: "k", Sort: smt.Int}
			in := func(a, b smt.T) smt.T { return smt.App(smt.Bool, "elemOf", a, b) }
			at := smt.App(smt.V, "s_at", ss, k)
			ln := smt.App(smt.Int, "s_len", ss)
			e.Axioms = append(e.Axioms, smt.Forall([]smt.Bound{{Name: "s", Sort: smt.V}, {Name: "k", Sort: smt.Int}}, smt.Implies(smt.And(smt.Le(smt.IntLit(0), k), smt.Lt(k, ln)), in(at, ss)), at))
			e.Axioms = append(e.Axioms, smt.Forall([]smt.Bound{{Name: "x", Sort: smt.V}, {Name: "s", Sort: smt.V}}, smt.Implies(in(xs, ss),
				smt.Exists([]smt.Bound{{Name: "k", Sort: smt.Int}}, smt.And(smt.Le(smt.IntLit(0), k), smt.Lt(k, ln), smt.Eq(at, xs)))), in(xs, ss)))
			app := smt.App(smt.V, "s_app", ss, xs)
			e.Axioms = append(e.Axioms, smt.Forall([]smt.Bound{{Name: "x", Sort: smt.V}, {Name: "s", Sort: smt.V}, {Name: "y", Sort: smt.V}},
				smt.Eq(in(ys, app), smt.Or(in(ys, ss), smt.Eq(ys, xs))), in(ys, app)))
			e.Axioms = append(e.Axioms, smt.Forall([]smt.Bound{{Name: "x", Sort: smt.V}, {Name: "s", Sort: smt.V}}, smt.Implies(smt.Eq(ln, smt.IntLit(0)), smt.Not(in(xs, ss))), in(xs, ss)))
		}
		return Val{smt.App(smt.Bool, "elemOf", Box(x.T), sl.T), types.Typ[types.Bool]}, nil
	}
	// field(x, i): the i-th field of a struct value whose Go type the clause does not know
	e.Specs["field"] = func(e *Engine, env *SpecEnv, args []spec.Expr) (Val, error) {
		if len(args) != 2 {
			return Val{}, fmt.Errorf("spec: field(x, i)")
		}
		x, err := e.evalSpec(env, args[0])
		if err != nil {
			return Val{}, err
		}
		il, ok := args[1].(*spec.IntLit)
		if !ok {
			return Val{}, fmt.Errorf("spec: field(x, i): i must be a literal")
		}
		idx := int(il.Val)
		if x.Ty != nil {
			if st, ok := x.Ty.Underlying().(*types.Struct); ok && idx < st.NumFields() {
				ft := st.Field(idx).Type()
				return Val{Unbox(smt.App(smt.V, "f_get", x.T, smt.IntLit(e.FID(x.Ty, idx))), SortOf(ft)), ft}, nil
			}
		}
		return Val{smt.App(smt.V, "f_get", x.T, smt.IntLit(idx)), nil}, nil
	}
	// distinct(s): the elements of slice s are pairwise different values
	e.Specs["distinct"] = func(e *Engine, env *SpecEnv, args []spec.Expr) (Val, error) {
		if len(args) != 1 {
			return Val{}, fmt.Errorf("spec: distinct(s)")
		}
		sl, err := e.evalSpec(env, args[0])
		if err != nil {
			return Val{}, err
		}
		e.DeclDistinct()
		return Val{smt.App(smt.Bool, "distinct_elems", sl.T), types.Typ[types.Bool]}, nil
	}
	e.Specs["visited"] = func(e *Engine, env *SpecEnv, args []spec.Expr) (Val, error) {
		if env.Visited == nil {
			return Val{}, fmt.Errorf("spec: visited() outside a map-range invariant")
		}
		v, err := e.evalSpec(env, args[0])
		if err != nil {
			return Val{}, err
		}
		return Val{env.Visited(v.T), types.Typ[types.Bool]}, nil
	}
	e.Specs["hasPrefix"] = func(e *Engine, env *SpecEnv, args []spec.Expr) (Val, error) {
		s, err := e.evalSpec(env, args[0])
		if err != nil {
			return Val{}, err
		}
		p, err := e.evalSpec(env, args[1])
		if err != nil {
			return Val{}, err
		}
		return Val{smt.App(smt.Bool, "str_prefix", p.T, s.T), types.Typ[types.Bool]}, nil
	}
	e.Specs["perm"] = func(e *Engine, env *SpecEnv, args []spec.Expr) (Val, error) {
		a, err := e.evalSpec(env, args[0])
		if err != nil {
			return Val{}, err
		}
		b, err := e.evalSpec(env, args[1])
		if err != nil {
			return Val{}, err
		}
		e.Decls.Fun("perm", []smt.Sort{smt.V, smt.V}, smt.Bool)
		return Val{smt.App(smt.Bool, "perm", a.T, b.T), types.Typ[types.Bool]}, nil
	}
	e.Specs["fltlt"] = func(e *Engine, env *SpecEnv, args []spec.Expr) (Val, error) {
		a, err := e.evalSpec(env, args[0])
		if err != nil {
			return Val{}, err
		}
		b, err := e.evalSpec(env, args[1])
		if err != nil {
			return Val{}, err
		}
		return Val{smt.App(smt.Bool, "flt_lt", a.T, b.T), types.Typ[types.Bool]}, nil
	}
	e.Specs["strlt"] = func(e *Engine, env *SpecEnv, args []spec.Expr) (Val, error) {
		s, err := e.evalSpec(env, args[0])
		if err != nil {
			return Val{}, err
		}
		p, err := e.evalSpec(env, args[1])
		if err != nil {
			return Val{}, err
		}
		return Val{smt.App(smt.Bool, "str_lt", s.T, p.T), types.Typ[types.Bool]}, nil
	}
	e.Specs["isType"] = func(e *Engine, env *SpecEnv, args []spec.Expr) (Val, error) {
		// isType(v, "*types.Named")
		v, err := e.evalSpec(env, args[0])
		if err != nil {
			return Val{}, err
		}
		name, ok := args[1].(*spec.StrLit)
		if !ok {
			return Val{}, fmt.Errorf("spec: isType needs a string literal")
		}
		return Val{smt.And(smt.Neq(v.T, NilV), smt.Eq(smt.App(smt.Int, "dyn_type", v.T), e.TypeID(name.Val))), types.Typ[types.Bool]}, nil
	}
	e.Specs["mapUpd"] = func(e *Engine, env *SpecEnv, args []spec.Expr) (Val, error) {
		m, err := e.evalSpec(env, args[0])
		if err != nil {
			return Val{}, err
		}
		k, err := e.evalSpec(env, args[1])
		if err != nil {
			return Val{}, err
		}
		v, err := e.evalSpec(env, args[2])
		if err != nil {
			return Val{}, err
		}
		return Val{smt.App(smt.V, "m_upd", m.T, Box(k.T), Box(v.T)), m.Ty}, nil
	}
	e.Specs["mapDel"] = func(e *Engine, env *SpecEnv, args []spec.Expr) (Val, error) {
		m, err := e.evalSpec(env, args[0])
		if err != nil {
			return Val{}, err
		}
		k, err := e.evalSpec(env, args[1])
		if err != nil {
			return Val{}, err
		}
		return Val{smt.App(smt.V, "m_del", m.T, Box(k.T)), m.Ty}, nil
	}
	e.Specs["sliceApp"] = func(e *Engine, env *SpecEnv, args []spec.Expr) (Val, error) {
		s, err := e.evalSpec(env, args[0])
		if err != nil {
			return Val{}, err
		}
		v, err := e.evalSpec(env, args[1])
		if err != nil {
			return Val{}, err
		}
		return Val{smt.App(smt.V, "s_app", s.T, Box(v.T)), s.Ty}, nil
	}
	// castp(x, T): the interface value x viewed as a *T of the contract's package
	// (interface values and the pointers they hold are the same term; only the
	// static type used to resolve field names changes). No dynamic-type claim is made.
	e.Specs["castp"] = func(e *Engine, env *SpecEnv, args []spec.Expr) (Val, error) {
		if len(args) != 2 {
			return Val{}, fmt.Errorf("spec: castp(x, T)")
		}
		id, ok := args[1].(*spec.Ident)
		if !ok {
			return Val{}, fmt.Errorf("spec: castp(x, T): T must be a type name")
		}
		v, err := e.evalSpec(env, args[0])
		if err != nil {
			return Val{}, err
		}
		var pkgs []*types.Package
		if e.cur != nil && e.cur.Pkg != nil {
			pkgs = append(pkgs, e.cur.Pkg)
			pkgs = append(pkgs, e.cur.Pkg.Imports()...)
		}
		for _, pk := range pkgs {
			if pk.Name() != env.Pkg {
				continue
			}
			if tn, ok := pk.Scope().Lookup(id.Name).(*types.TypeName); ok {
				return Val{v.T, types.NewPointer(tn.Type())}, nil
			}
		}
		// a contract of an external function (ast.Walk) naming a type of the package under verification
		if e.cur != nil && e.cur.Pkg != nil {
			if tn, ok := e.cur.Pkg.Scope().Lookup(id.Name).(*types.TypeName); ok {
				return Val{v.T, types.NewPointer(tn.Type())}, nil
			}
		}
		return Val{}, fmt.Errorf("spec: castp: no type %s in package %s", id.Name, env.Pkg)
	}
	e.Specs["ite"] = func(e *Engine, env *SpecEnv, args []spec.Expr) (Val, error) {
		c, err := e.evalSpec(env, args[0])
		if err != nil {
			return Val{}, err
		}
		a, err := e.evalSpec(env, args[1])
		if err != nil {
			return Val{}, err
		}
		b, err := e.evalSpec(env, args[2])
		if err != nil {
			return Val{}, err
		}
		if a.T.Sort != b.T.Sort {
			return Val{}, fmt.Errorf("spec: ite branches differ in sort")
		}
		return Val{smt.Ite(c.T, a.T, b.T), a.Ty}, nil
	}
}

// DeclDistinct declares distinct_elems(s) <==> forall a < b < len(s) :: s[a] != s[b].
func (e *Engine) DeclDistinct() {
	if e.Decls.HasFun("distinct_elems") {
		return
	}
	e.Decls.Fun("distinct_elems", []smt.Sort{smt.V}, smt.Bool)
	ss := smt.T{S: "s", Sort: smt.V}
	a, b := smt.T{S: "a?e", Sort: smt.Int}, smt.T{S: "b?e", Sort: smt.Int}
	d := smt.App(smt.Bool, "distinct_elems", ss)
	def := smt.Forall([]smt.Bound{{Name: a.S, Sort: smt.Int}, {Name: b.S, Sort: smt.Int}},
		smt.Implies(smt.And(smt.Le(smt.IntLit(0), a), smt.Lt(a, b), smt.Lt(b, smt.App(smt.Int, "s_len", ss))), smt.Neq(smt.App(smt.V, "s_at", ss, a), smt.App(smt.V, "s_at", ss, b))))
	e.Axioms = append(e.Axioms, smt.Forall([]smt.Bound{{Name: "s", Sort: smt.V}}, smt.Eq(d, def), d))
}
