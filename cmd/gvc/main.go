package main

import (
	"flag"
	"fmt"
	"os"
	"strings"
	"time"

	"gvc/internal/driver"
	"gvc/internal/geval"
	"gvc/internal/olayer"
	"gvc/internal/props"
	"gvc/internal/smt"
	"gvc/internal/vc"
)

func main() {
	if len(os.Args) < 2 {
		fmt.Fprintln(os.Stderr, "usage: gvc <verify|check> ...")
		os.Exit(2)
	}
	switch os.Args[1] {
	case "verify":
		cmdVerify(os.Args[2:])
	case "paths":
		cmdPaths(os.Args[2:])
	case "olayer":
		cmdOLayer(os.Args[2:])
	case "check":
		os.Exit(cmdCheck(os.Args[2:]))
	case "replay":
		if len(os.Args) < 3 {
			fmt.Fprintln(os.Stderr, "usage: gvc replay <replay file>")
			os.Exit(2)
		}
		os.Exit(props.Replay(&props.Ctx{Repo: "/repo", VerifDir: "/verif"}, os.Args[2]))
	default:
		fmt.Fprintln(os.Stderr, "unknown command", os.Args[1])
		os.Exit(2)
	}
}

func cmdVerify(args []string) {
	fs := flag.NewFlagSet("verify", flag.ExitOnError)
	repo := fs.String("repo", "/repo", "repository")
	pkg := fs.String("pkg", "derive", "package (short)")
	funcs := fs.String("funcs", "", "comma separated contract keys")
	out := fs.String("out", "/tmp/gvc-run", "smt output dir")
	ghost := fs.String("ghost", "", "ghost vars name:type,...")
	fs.Parse(args)
	l, err := driver.Load(*repo)
	if err != nil {
		fmt.Fprintln(os.Stderr, "load:", err)
		os.Exit(2)
	}
	var opts vc.VerifyOpts
	if *ghost != "" {
		for _, g := range strings.Split(*ghost, ",") {
			nt := strings.SplitN(g, ":", 2)
			opts.Ghost = append(opts.Ghost, vc.GhostVar{Name: nt[0], Type: nt[1]})
		}
	}
	runner := smt.NewRunner(*out, 10*time.Second)
	rs, err := l.VerifyD(*pkg, strings.Split(*funcs, ","), opts, runner)
	if err != nil {
		fmt.Fprintln(os.Stderr, "error:", err)
		os.Exit(2)
	}
	fmt.Print(driver.Summary(rs))
	for _, r := range rs {
		if r.Status != "unsat" && r.Kind == "contract-applies" {
			fmt.Printf("FAILED %s: %s\n", r.ID, r.Output)
		}
	}
}

func cmdCheck(args []string) int {
	fs := flag.NewFlagSet("check", flag.ExitOnError)
	repo := fs.String("repo", "/repo", "repository")
	verif := fs.String("verif", "/verif", "verification directory")
	fs.Parse(args)
	if fs.NArg() != 1 {
		fmt.Fprintln(os.Stderr, "usage: gvc check <property id>")
		return 2
	}
	id := fs.Arg(0)
	p := props.Table()[id]
	if p == nil {
		fmt.Fprintf(os.Stderr, "gvc: property %s is not claimed (see MANIFEST.json not_applicable)\n", id)
		return 2
	}
	tier := os.Getenv("VERIF_TIER")
	if tier == "" {
		tier = "quick"
	}
	seed := 0
	fmt.Sscan(os.Getenv("VERIF_SEED"), &seed)
	l, err := driver.Load(*repo)
	if err != nil {
		fmt.Fprintln(os.Stderr, "gvc: cannot load repository:", err)
		return 2
	}
	to := 20 * time.Second
	if tier == "thorough" {
		to = 60 * time.Second
	}
	scratch, err := os.MkdirTemp("", "gvc-"+id+"-")
	if err != nil {
		fmt.Fprintln(os.Stderr, "gvc:", err)
		return 2
	}
	defer os.RemoveAll(scratch)
	ctx := &props.Ctx{L: l, Runner: smt.NewRunner(scratch, to), Tier: tier, Seed: seed, VerifDir: *verif, Repo: *repo}
	return props.Run(ctx, p, "proof")
}

func cmdPaths(args []string) {
	fs := flag.NewFlagSet("paths", flag.ExitOnError)
	repo := fs.String("repo", "/repo", "repository")
	fn := fs.String("func", "", "contract key of the entry function")
	verbose := fs.Bool("v", false, "print emitted text")
	fs.Parse(args)
	l, err := driver.Load(*repo)
	if err != nil {
		fmt.Fprintln(os.Stderr, "load:", err)
		os.Exit(2)
	}
	it := geval.NewInterp(l)
	paths, err := it.Explore(*fn, it.MakeArgs(*fn), 5000)
	if err != nil {
		fmt.Fprintln(os.Stderr, "error:", err)
	}
	for i, p := range paths {
		status := "ok"
		if p.Unsupported != nil {
			status = "UNSUPPORTED " + p.Unsupported.Msg + " @" + l.Fset.Position(p.Unsupported.Pos).String()
		} else if p.Aborted != "" {
			status = "ABORTED " + p.Aborted
		}
		if ok, why := p.Consistent(); !ok {
			status = "INFEASIBLE " + why
		}
		var rets []string
		for _, r := range p.Ret {
			rets = append(rets, geval.Describe(r))
		}
		fmt.Printf("path %d [%s] ret=%v indent=%d events=%v :: %s\n", i, status, rets, p.Indent, p.Events, p.Name())
		if *verbose {
			for _, ln := range p.Out {
				fmt.Printf("    %s%s\n", strings.Repeat("\t", ln.Indent), ln.Text)
			}
		}
	}
}

func cmdOLayer(args []string) {
	fs := flag.NewFlagSet("olayer", flag.ExitOnError)
	repo := fs.String("repo", "/repo", "repository")
	fn := fs.String("func", "", "contract key of the generator function")
	out := fs.String("out", "/tmp/gvc-run", "smt output dir")
	src := fs.Bool("src", false, "print sample schematic programs")
	nfail := fs.Int("nfail", 1, "failing samples to print per obligation name")
	fs.Parse(args)
	l, err := driver.Load(*repo)
	if err != nil {
		fmt.Fprintln(os.Stderr, "load:", err)
		os.Exit(2)
	}
	b := olayer.NewBuilder(l.Contracts)
	rep, err := olayer.RunEntry(l, b, *fn, olayer.RunOpts{})
	if err != nil {
		fmt.Fprintln(os.Stderr, "error:", err)
		os.Exit(2)
	}
	rep.Solve(smt.NewRunner(*out, 10*time.Second))
	fmt.Printf("%s: %d paths (%d ok, %d error, %d infeasible)\n", rep.Entry, rep.Paths, rep.OkPaths, rep.ErrPaths, rep.Infeasible)
	if *src {
		for _, s := range rep.Samples {
			fmt.Println("-----\n" + s)
		}
	}
	fmt.Print(driver.Summary(rep.Results))
	seen := map[string]int{}
	for _, r := range rep.Results {
		if r.Status != "unsat" {
			seen[r.Name]++
			if seen[r.Name] > *nfail {
				continue
			}
			fmt.Println("FAILED", r.ID, r.Status)
			out := r.Output
			if len(out) > 2500 {
				out = out[:2500] + "..."
			}
			fmt.Println(out)
		}
	}
}
