package main

import (
	"flag"
	"fmt"
	"os"
	"strings"
	"time"

	"gvc/internal/driver"
	"gvc/internal/props"
	"gvc/internal/smt"
	"gvc/internal/vc"
)

func main() {
	if len(os.Args) < 2 {
		fmt.Fprintln(os.Stderr, "usage: gvc <verify|check> ...")
		os.Exit(2)
	}
	switch os.Args[1] {
	case "verify":
		cmdVerify(os.Args[2:])
	case "check":
		os.Exit(cmdCheck(os.Args[2:]))
	default:
		fmt.Fprintln(os.Stderr, "unknown command", os.Args[1])
		os.Exit(2)
	}
}

func cmdVerify(args []string) {
	fs := flag.NewFlagSet("verify", flag.ExitOnError)
	repo := fs.String("repo", "/repo", "repository")
	pkg := fs.String("pkg", "derive", "package (short)")
	funcs := fs.String("funcs", "", "comma separated contract keys")
	out := fs.String("out", "/tmp/gvc-run", "smt output dir")
	ghost := fs.String("ghost", "", "ghost vars name:type,...")
	fs.Parse(args)
	l, err := driver.Load(*repo)
	if err != nil {
		fmt.Fprintln(os.Stderr, "load:", err)
		os.Exit(2)
	}
	var opts vc.VerifyOpts
	if *ghost != "" {
		for _, g := range strings.Split(*ghost, ",") {
			nt := strings.SplitN(g, ":", 2)
			opts.Ghost = append(opts.Ghost, vc.GhostVar{Name: nt[0], Type: nt[1]})
		}
	}
	runner := smt.NewRunner(*out, 10*time.Second)
	rs, err := l.VerifyD(*pkg, strings.Split(*funcs, ","), opts, runner)
	if err != nil {
		fmt.Fprintln(os.Stderr, "error:", err)
		os.Exit(2)
	}
	fmt.Print(driver.Summary(rs))
}

func cmdCheck(args []string) int {
	fs := flag.NewFlagSet("check", flag.ExitOnError)
	repo := fs.String("repo", "/repo", "repository")
	verif := fs.String("verif", "/verif", "verification directory")
	fs.Parse(args)
	if fs.NArg() != 1 {
		fmt.Fprintln(os.Stderr, "usage: gvc check <property id>")
		return 2
	}
	id := fs.Arg(0)
	p := props.Table()[id]
	if p == nil {
		fmt.Fprintf(os.Stderr, "gvc: property %s is not claimed (see MANIFEST.json not_applicable)\n", id)
		return 2
	}
	tier := os.Getenv("VERIF_TIER")
	if tier == "" {
		tier = "quick"
	}
	seed := 0
	fmt.Sscan(os.Getenv("VERIF_SEED"), &seed)
	l, err := driver.Load(*repo)
	if err != nil {
		fmt.Fprintln(os.Stderr, "gvc: cannot load repository:", err)
		return 2
	}
	to := 10 * time.Second
	if tier == "thorough" {
		to = 60 * time.Second
	}
	scratch, err := os.MkdirTemp("", "gvc-"+id+"-")
	if err != nil {
		fmt.Fprintln(os.Stderr, "gvc:", err)
		return 2
	}
	defer os.RemoveAll(scratch)
	ctx := &props.Ctx{L: l, Runner: smt.NewRunner(scratch, to), Tier: tier, Seed: seed, VerifDir: *verif, Repo: *repo}
	return props.Run(ctx, p, "proof")
}
