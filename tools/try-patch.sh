#!/bin/sh
# tools/try-patch.sh <patch.diff> <property id>...: runs the checks against a scratch worktree of /repo
# with the patch applied (uncommitted contract files travel along); /repo itself is not touched.
patch=$1; shift
wt=$(mktemp -d /tmp/gvc-try-XXXXXX); rmdir "$wt"
vd=$(mktemp -d /tmp/gvc-try-verif-XXXXXX)
cd "$(dirname "$0")/.." || exit 2
export GOFLAGS=-mod=mod GOPROXY=off
git -C /repo worktree add -q --detach "$wt" HEAD || exit 2
for f in $(git -C /repo ls-files -m -o --exclude-standard | grep contracts_verif.go); do mkdir -p "$wt/$(dirname $f)"; cp "/repo/$f" "$wt/$f"; done
cp known_findings.json "$vd/"
rc=0
if git -C "$wt" apply "$patch"; then
  (cd "$wt" && go build . ./derive/... ./plugin/...) || echo "DOES NOT COMPILE"
  for id in "$@"; do
    ./bin/gvc check -repo "$wt" -verif "$vd" "$id" 2>&1 | grep -E "^property|VIOLATION|failed obligation|gvc:" | sed "s|$vd|<verif>|; s|$wt/||" | cut -c1-260 | head -${TRY_LINES:-12}
  done
else
  echo "PATCH DOES NOT APPLY"; rc=2
fi
git -C /repo worktree remove --force "$wt"; rm -rf "$wt" "$vd"
exit $rc
