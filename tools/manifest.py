#!/usr/bin/env python3
"""Regenerates /verif/MANIFEST.json from tools/claims.json (texts per claimed property)
and tools/not_applicable.json. Keeps hooks.source_commits in sync with /repo."""
import json, subprocess, os
V = os.path.dirname(os.path.dirname(os.path.abspath(__file__)))
claims = json.load(open(os.path.join(V, "tools", "claims.json")))
na = json.load(open(os.path.join(V, "tools", "not_applicable.json")))
commits = subprocess.check_output(["git", "-C", "/repo", "log", "--format=%H %s", "c2e14f2..HEAD"], text=True).strip().split("\n")
hook_commits = [c.split()[0] for c in commits if " verif:" in c]
checks = []
for pid in sorted(claims):
    c = claims[pid]
    checks.append({
        "property_id": pid, "quick_cmd": "./check " + pid, "thorough_cmd": "VERIF_TIER=thorough ./check " + pid,
        "evidence_file": "/verif/evidence/%s.json" % pid, "replay_cmd_template": "./check --replay {path}", "engine": "gvc",
        "level_claimed": {"category": c.get("category", "proof"), "text": c["text"], "design_ref": "DESIGN.md §5 " + pid},
        "level_note": c["note"], "technique": c.get("technique", "contract-based deductive verification (contracts on the real generator code; VC generation; SMT)"),
    })
m = {
    "version": 1,
    "setup_cmd": "cd /verif && GOFLAGS=-mod=mod GOPROXY=off go build -o bin/gvc ./cmd/gvc",
    "hooks": {
        "guard": "verif",
        "enable": "the engine loads /repo with go/packages BuildFlags -tags=verif and reads the comment-only contract files contracts_verif.go (//go:build verif); no instrumented build of goderive is needed",
        "baseline_off_cmd": "cd /repo && go test -mod=mod -vet=off -count=1 -timeout 25m ./...",
        "source_commits": hook_commits, "add_only": True,
    },
    "engines": [{"name": "gvc", "path": "/verif/cmd/gvc", "serves_properties": sorted(claims),
                 "kind_free_text": "contract-based deductive verifier for Go written for this task: contracts in //@ comment files behind build tag verif; Layer D: VC generation over the typed AST of repository functions; Layer G: symbolic evaluation of the generator functions into schematic Go text; Layer O: VC generation over the emitted text against specification functions; obligations discharged by z3 4.8.12 / z3 5.1.0 / cvc5 1.0 raced"}],
    "checks": checks,
    "not_applicable": [{"property_id": k, "reason": na[k]} for k in sorted(na) if k not in claims],
    "notes": "Properties move from not_applicable to checks as their obligations are built. See DESIGN.md.",
}
json.dump(m, open(os.path.join(V, "MANIFEST.json"), "w"), indent=1)
print("claimed:", ", ".join(sorted(claims)))
