#!/bin/sh
# Runs every claimed check on the unchanged tree (must all exit 0) and, with "all", the must-fail corpus.
cd "$(dirname "$0")/.." || exit 2
rc=0
for id in $(python3 -c "import json; print(' '.join(c['property_id'] for c in json.load(open('MANIFEST.json'))['checks']))"); do
  out=$(./check $id 2>&1); code=$?
  echo "$out" | grep -E "^property |VIOLATION|gvc:" | cut -c1-160
  [ $code -ne 0 ] && rc=1
done
if [ "$1" = "all" ]; then
  python3 selftest/run.py | grep -v "^caught"
  python3 selftest/run_harmless.py | grep -v "^silent  \|known limit"
fi
exit $rc
