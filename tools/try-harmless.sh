#!/bin/sh
# tools/try-harmless.sh <patch.diff>: runs EVERY claimed check against a scratch worktree of /repo with the
# (behaviour-preserving) patch applied and prints the alarms raised, if any. /repo itself is not touched.
patch=$1
wt=$(mktemp -d /tmp/gvc-harm-XXXXXX); rmdir "$wt"
vd=$(mktemp -d /tmp/gvc-harm-verif-XXXXXX)
cd "$(dirname "$0")/.." || exit 2
export GOFLAGS=-mod=mod GOPROXY=off
git -C /repo worktree add -q --detach "$wt" HEAD || exit 2
cp known_findings.json "$vd/"
n=0
if git -C "$wt" apply "$patch"; then
  (cd "$wt" && go build . ./derive/... ./plugin/...) || echo "DOES NOT COMPILE"
  for id in $(python3 -c "import json; print(' '.join(c['property_id'] for c in json.load(open('MANIFEST.json'))['checks']))"); do
    out=$(./bin/gvc check -repo "$wt" -verif "$vd" "$id" 2>&1)
    if echo "$out" | grep -q "^VIOLATION\|gvc: engine"; then
      n=$((n+1))
      echo "ALARM $id: $(echo "$out" | grep -E "failed obligation|gvc:" | head -3 | sed "s|$wt/||" | cut -c1-230 | tr '\n' ' ')"
    fi
  done
else
  echo "PATCH DOES NOT APPLY"
fi
echo "alarms: $n  ($patch)"
git -C /repo worktree remove --force "$wt"; rm -rf "$wt" "$vd"
