#!/usr/bin/env python3
"""Must-fail corpus: every mutant (a source patch that breaks a property but still
compiles) must make a named obligation fail. Usage: run.py [name-substring ...]

Each mutant is a directory selftest/mutants/<name>/ with
  patch.diff   unified diff against /repo (applied to a scratch worktree)
  cmd          one line: arguments to bin/gvc run with -repo <worktree> (e.g. "olayer -func filter.gen.genFuncFor")
  expect       substring that must occur in a FAIL line (obligation name)
"""
import os, subprocess, sys, tempfile, shutil, glob, threading
GITLOCK = threading.Lock()

VERIF = os.path.dirname(os.path.dirname(os.path.abspath(__file__)))
REPO = "/repo"
env = dict(os.environ, GOFLAGS="-mod=mod", GOPROXY="off")

def run_one(d):
    name = os.path.basename(d)
    cmd = open(os.path.join(d, "cmd")).read().split()
    expect = open(os.path.join(d, "expect")).read().strip()
    wt = tempfile.mkdtemp(prefix="gvc-mut-")
    os.rmdir(wt)
    try:
        with GITLOCK:
            subprocess.check_call(["git", "-C", REPO, "worktree", "add", "-q", "--detach", wt, "HEAD"])
        # uncommitted contract files travel with the mutant
        for f in subprocess.check_output(["git", "-C", REPO, "ls-files", "-m", "-o", "--exclude-standard"], text=True).split():
            if f.endswith("contracts_verif.go"):
                os.makedirs(os.path.dirname(os.path.join(wt, f)), exist_ok=True)
                shutil.copy(os.path.join(REPO, f), os.path.join(wt, f))
        r = subprocess.run(["git", "-C", wt, "apply", os.path.join(d, "patch.diff")], capture_output=True, text=True)
        if r.returncode != 0:
            return name, "PATCH-DOES-NOT-APPLY", r.stderr.strip()
        b = subprocess.run(["go", "build", ".", "./derive/...", "./plugin/..."], cwd=wt, env=env, capture_output=True, text=True)
        if b.returncode != 0:
            return name, "MUTANT-DOES-NOT-COMPILE", b.stderr.strip()[:300]
        out_dir = tempfile.mkdtemp(prefix="gvc-mut-smt-")
        vd = None
        args = [os.path.join(VERIF, "bin", "gvc"), cmd[0], "-repo", wt]
        if cmd[0] == "check":
            vd = tempfile.mkdtemp(prefix="gvc-mut-verif-")
            shutil.copy(os.path.join(VERIF, "known_findings.json"), vd)  # listed findings stay findings
            args += ["-verif", vd]
        if cmd[0] in ("olayer", "verify"):
            args += ["-out", out_dir]
        args += cmd[1:]
        p = subprocess.run(args, env=env, capture_output=True, text=True)
        shutil.rmtree(out_dir, ignore_errors=True)
        if vd:
            shutil.rmtree(vd, ignore_errors=True)
        fails = [l for l in (p.stdout + p.stderr).splitlines() if l.startswith("FAIL") or l.startswith("VIOLATION") or "failed obligation" in l]
        hit = [l for l in fails if expect in l]
        if hit:
            return name, "caught", hit[0][:160]
        if fails:
            return name, "caught-elsewhere", fails[0][:160]
        return name, "MISSED", (p.stdout + p.stderr)[-300:]
    finally:
        with GITLOCK:
            subprocess.call(["git", "-C", REPO, "worktree", "remove", "--force", wt], stderr=subprocess.DEVNULL)
        shutil.rmtree(wt, ignore_errors=True)

def main():
    sel = sys.argv[1:]
    ds = sorted(glob.glob(os.path.join(VERIF, "selftest", "mutants", "*")))
    bad = 0
    todo = [d for d in ds if os.path.isdir(d) and (not sel or any(s in os.path.basename(d) for s in sel))]
    # a few mutants at a time: each check races three solvers per obligation already
    from concurrent.futures import ThreadPoolExecutor
    workers = int(os.environ.get("SELFTEST_JOBS", "3"))
    with ThreadPoolExecutor(max_workers=workers) as ex:
        for name, verdict, info in ex.map(run_one, todo):
            print(f"{verdict:24s} {name}: {info}", flush=True)
            if verdict not in ("caught", "caught-elsewhere"):
                bad += 1
    sys.exit(1 if bad else 0)

if __name__ == "__main__":
    main()
