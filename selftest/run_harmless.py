#!/usr/bin/env python3
"""Must-stay-silent corpus: behaviour-preserving refactorings (harmless/<name>/patch.diff, produced by
independent sub-agents and checked by them for byte-identical output) must not raise an alarm in the checks
listed in harmless/<name>/checks. A directory with a file expected-alarm documents a known limit."""
import os, subprocess, sys, tempfile, shutil, glob, threading
from concurrent.futures import ThreadPoolExecutor
VERIF = os.path.dirname(os.path.dirname(os.path.abspath(__file__)))
REPO = "/repo"
env = dict(os.environ, GOFLAGS="-mod=mod", GOPROXY="off")
GITLOCK = threading.Lock()

def run_one(d):
    name = os.path.basename(d)
    checks = open(os.path.join(d, "checks")).read().split()
    expected = os.path.exists(os.path.join(d, "expected-alarm"))
    wt = tempfile.mkdtemp(prefix="gvc-harm-"); os.rmdir(wt)
    vd = tempfile.mkdtemp(prefix="gvc-harm-verif-")
    try:
        with GITLOCK:
            subprocess.check_call(["git", "-C", REPO, "worktree", "add", "-q", "--detach", wt, "HEAD"])
        shutil.copy(os.path.join(VERIF, "known_findings.json"), vd)
        r = subprocess.run(["git", "-C", wt, "apply", os.path.join(d, "patch.diff")], capture_output=True, text=True)
        if r.returncode != 0:
            return name, "PATCH-DOES-NOT-APPLY", r.stderr.strip()[:200]
        b = subprocess.run(["go", "build", ".", "./derive/...", "./plugin/..."], cwd=wt, env=env, capture_output=True, text=True)
        if b.returncode != 0:
            return name, "DOES-NOT-COMPILE", b.stderr.strip()[:200]
        alarms = []
        for c in checks:
            p = subprocess.run([os.path.join(VERIF, "bin", "gvc"), "check", "-repo", wt, "-verif", vd, c], env=env, capture_output=True, text=True)
            out = p.stdout + p.stderr
            if p.returncode != 0 or "VIOLATION" in out:
                fo = [l.strip() for l in out.splitlines() if "failed obligation" in l or l.startswith("gvc:")]
                alarms.append(c + ": " + (fo[0] if fo else "exit %d" % p.returncode)[:160])
        if alarms and expected:
            return name, "alarm (known limit)", alarms[0]
        if alarms:
            return name, "FALSE-ALARM", "; ".join(alarms)
        if expected:
            return name, "silent (limit gone?)", ""
        return name, "silent", " ".join(checks)
    finally:
        with GITLOCK:
            subprocess.call(["git", "-C", REPO, "worktree", "remove", "--force", wt], stderr=subprocess.DEVNULL)
        shutil.rmtree(wt, ignore_errors=True); shutil.rmtree(vd, ignore_errors=True)

def main():
    sel = sys.argv[1:]
    ds = [d for d in sorted(glob.glob(os.path.join(VERIF, "harmless", "*"))) if os.path.isdir(d) and (not sel or any(s in os.path.basename(d) for s in sel))]
    bad = 0
    with ThreadPoolExecutor(max_workers=int(os.environ.get("SELFTEST_JOBS", "3"))) as ex:
        for name, verdict, info in ex.map(run_one, ds):
            print(f"{verdict:22s} {name}: {info}", flush=True)
            if verdict == "FALSE-ALARM":
                bad += 1
    sys.exit(1 if bad else 0)

if __name__ == "__main__":
    main()
